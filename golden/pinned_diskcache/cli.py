"""Command line interface to disk cache."""
