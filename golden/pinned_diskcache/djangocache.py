"""Django-compatible disk and file backed cache."""

from functools import wraps

from django.core.cache.backends.base import BaseCache

try:
    from django.core.cache.backends.base import DEFAULT_TIMEOUT
except ImportError:  # pragma: no cover
    # For older versions of Django simply use 300 seconds.
    DEFAULT_TIMEOUT = 300

from .core import ENOVAL, args_to_key, full_name
from .fanout import FanoutCache


class DjangoCache(BaseCache):
    """Django-compatible disk and file backed cache."""

    def __init__(self, directory, params):
        """Initialize DjangoCache instance.

        :param str directory: cache directory
        :param dict params: cache parameters

        """
        super().__init__(params)
        shards = params.get('SHARDS', 8)
        timeout = params.get('DATABASE_TIMEOUT', 0.010)
        options = params.get('OPTIONS', {})
        self._cache = FanoutCache(directory, shards, timeout, **options)

    @property
    def directory(self):
        """Cache directory."""
        return self._cache.directory

    def cache(self, name):
        """Return Cache with given `name` in subdirectory.

        :param str name: subdirectory name for Cache
        :return: Cache with given name

        """
        return self._cache.cache(name)

    def deque(self, name, maxlen=None):
        """Return Deque with given `name` in subdirectory.

        :param str name: subdirectory name for Deque
        :param maxlen: max length (default None, no max)
        :return: Deque with given name

        """
        return self._cache.deque(name, maxlen=maxlen)

    def index(self, name):
        """Return Index with given `name` in subdirectory.

        :param str name: subdirectory name for Index
        :return: Index with given name

        """
        return self._cache.index(name)

    def add(
        self,
        key,
        value,
        timeout=DEFAULT_TIMEOUT,
        version=None,
        read=False,
        tag=None,
        retry=True,
    ):
        """Set a value in the cache if the key does not already exist. If
        timeout is given, that timeout will be used for the key; otherwise the
        default cache timeout will be used.

        Return True if the value was stored, False otherwise.

        :param key: key for item
        :param value: value for item
        :param float timeout: seconds until the item expires
            (default 300 seconds)
        :param int version: key version number (default None, cache parameter)
        :param bool read: read value as bytes from file (default False)
        :param str tag: text to associate with key (default None)
        :param bool retry: retry if database timeout occurs (default True)
        :return: True if item was added

        """
        # pylint: disable=arguments-differ
        key = self.make_key(key, version=version)
        timeout = self.get_backend_timeout(timeout=timeout)
        return self._cache.add(key, value, timeout, read, tag, retry)

    def get(
        self,
        key,
        default=None,
        version=None,
        read=False,
        expire_time=False,
        tag=False,
        retry=False,
    ):
        """Fetch a given key from the cache. If the key does not exist, return
        default, which itself defaults to None.

        :param key: key for item
        :param default: return value if key is missing (default None)
        :param int version: key version number (default None, cache parameter)
        :param bool read: if True, return file handle to value
            (default False)
        :param float expire_time: if True, return expire_time in tuple
            (default False)
        :param tag: if True, return tag in tuple (default False)
        :param bool retry: retry if database timeout occurs (default False)
        :return: value for item if key is found else default

        """
        # pylint: disable=arguments-differ
        key = self.make_key(key, version=version)
        return self._cache.get(key, default, read, expire_time, tag, retry)

    def read(self, key, version=None):
        """Return file handle corresponding to `key` from Cache.

        :param key: Python key to retrieve
        :param int version: key version number (default None, cache parameter)
        :return: file open for reading in binary mode
        :raises KeyError: if key is not found

        """
        key = self.make_key(key, version=version)
        return self._cache.read(key)

    def set(
        self,
        key,
        value,
        timeout=DEFAULT_TIMEOUT,
        version=None,
        read=False,
        tag=None,
        retry=True,
    ):
        """Set a value in the cache. If timeout is given, that timeout will be
        used for the key; otherwise the default cache timeout will be used.

        :param key: key for item
        :param value: value for item
        :param float timeout: seconds until the item expires
            (default 300 seconds)
        :param int version: key version number (default None, cache parameter)
        :param bool read: read value as bytes from file (default False)
        :param str tag: text to associate with key (default None)
        :param bool retry: retry if database timeout occurs (default True)
        :return: True if item was set

        """
        # pylint: disable=arguments-differ
        key = self.make_key(key, version=version)
        timeout = self.get_backend_timeout(timeout=timeout)
        return self._cache.set(key, value, timeout, read, tag, retry)

    def touch(self, key, timeout=DEFAULT_TIMEOUT, version=None, retry=True):
        """Touch a key in the cache. If timeout is given, that timeout will be
        used for the key; otherwise the default cache timeout will be used.

        :param key: key for item
        :param float timeout: seconds until the item expires
            (default 300 seconds)
        :param int version: key version number (default None, cache parameter)
        :param bool retry: retry if database timeout occurs (default True)
        :return: True if key was touched

        """
        # pylint: disable=arguments-differ
        key = self.make_key(key, version=version)
        timeout = self.get_backend_timeout(timeout=timeout)
        return self._cache.touch(key, timeout, retry)

    def pop(
        self,
        key,
        default=None,
        version=None,
        expire_time=False,
        tag=False,
        retry=True,
    ):
        """Remove corresponding item for `key` from cache and return value.

        If `key` is missing, return `default`.

        Operation is atomic. Concurrent operations will be serialized.

        :param key: key for item
        :param default: return value if key is missing (default None)
        :param int version: key version number (default None, cache parameter)
        :param float expire_time: if True, return expire_time in tuple
            (default False)
        :param tag: if True, return tag in tuple (default False)
        :param bool retry: retry if database timeout occurs (default True)
        :return: value for item if key is found else default

        """
        key = self.make_key(key, version=version)
        return self._cache.pop(key, default, expire_time, tag, retry)

    def delete(self, key, version=None, retry=True):
        """Delete a key from the cache, failing silently.

        :param key: key for item
        :param int version: key version number (default None, cache parameter)
        :param bool retry: retry if database timeout occurs (default True)
        :return: True if item was deleted

        """
        # pylint: disable=arguments-differ
        key = self.make_key(key, version=version)
        return self._cache.delete(key, retry)

    def incr(self, key, delta=1, version=None, default=None, retry=True):
        """Increment value by delta for item with key.

        If key is missing and default is None then raise KeyError. Else if key
        is missing and default is not None then use default for value.

        Operation is atomic. All concurrent increment operations will be
        counted individually.

        Assumes value may be stored in a SQLite column. Most builds that target
        machines with 64-bit pointer widths will support 64-bit signed
        integers.

        :param key: key for item
        :param int delta: amount to increment (default 1)
        :param int version: key version number (default None, cache parameter)
        :param int default: value if key is missing (default None)
        :param bool retry: retry if database timeout occurs (default True)
        :return: new value for item on success else None
        :raises ValueError: if key is not found and default is None

        """
        # pylint: disable=arguments-differ
        key = self.make_key(key, version=version)
        try:
            return self._cache.incr(key, delta, default, retry)
        except KeyError:
            raise ValueError("Key '%s' not found" % key) from None

    def decr(self, key, delta=1, version=None, default=None, retry=True):
        """Decrement value by delta for item with key.

        If key is missing and default is None then raise KeyError. Else if key
        is missing and default is not None then use default for value.

        Operation is atomic. All concurrent decrement operations will be
        counted individually.

        Unlike Memcached, negative values are supported. Value may be
        decremented below zero.

        Assumes value may be stored in a SQLite column. Most builds that target
        machines with 64-bit pointer widths will support 64-bit signed
        integers.

        :param key: key for item
        :param int delta: amount to decrement (default 1)
        :param int version: key version number (default None, cache parameter)
        :param int default: value if key is missing (default None)
        :param bool retry: retry if database timeout occurs (default True)
        :return: new value for item on success else None
        :raises ValueError: if key is not found and default is None

        """
        # pylint: disable=arguments-differ
        return self.incr(key, -delta, version, default, retry)

    def has_key(self, key, version=None):
        """Returns True if the key is in the cache and has not expired.

        :param key: key for item
        :param int version: key version number (default None, cache parameter)
        :return: True if key is found

        """
        key = self.make_key(key, version=version)
        return key in self._cache

    def expire(self):
        """Remove expired items from cache.

        :return: count of items removed

        """
        return self._cache.expire()

    def stats(self, enable=True, reset=False):
        """Return cache statistics hits and misses.

        :param bool enable: enable collecting statistics (default True)
        :param bool reset: reset hits and misses to 0 (default False)
        :return: (hits, misses)

        """
        return self._cache.stats(enable=enable, reset=reset)

    def create_tag_index(self):
        """Create tag index on cache database.

        Better to initialize cache with `tag_index=True` than use this.

        :raises Timeout: if database timeout occurs

        """
        self._cache.create_tag_index()

    def drop_tag_index(self):
        """Drop tag index on cache database.

        :raises Timeout: if database timeout occurs

        """
        self._cache.drop_tag_index()

    def evict(self, tag):
        """Remove items with matching `tag` from cache.

        :param str tag: tag identifying items
        :return: count of items removed

        """
        return self._cache.evict(tag)

    def cull(self):
        """Cull items from cache until volume is less than size limit.

        :return: count of items removed

        """
        return self._cache.cull()

    def clear(self):
        """Remove *all* values from the cache at once."""
        return self._cache.clear()

    def close(self, **kwargs):
        """Close the cache connection."""
        # pylint: disable=unused-argument
        self._cache.close()

    def get_backend_timeout(self, timeout=DEFAULT_TIMEOUT):
        """Return seconds to expiration.

        :param float timeout: seconds until the item expires
            (default 300 seconds)

        """
        if timeout == DEFAULT_TIMEOUT:
            timeout = self.default_timeout
        elif timeout == 0:
            # ticket 21147 - avoid time.time() related precision issues
            timeout = -1
        return None if timeout is None else timeout

    def memoize(
        self,
        name=None,
        timeout=DEFAULT_TIMEOUT,
        version=None,
        typed=False,
        tag=None,
        ignore=(),
    ):
        """Memoizing cache decorator.

        Decorator to wrap callable with memoizing function using cache.
        Repeated calls with the same arguments will lookup result in cache and
        avoid function evaluation.

        If name is set to None (default), the callable name will be determined
        automatically.

        When timeout is set to zero, function results will not be set in the
        cache. Cache lookups still occur, however. Read
        :doc:`case-study-landing-page-caching` for example usage.

        If typed is set to True, function arguments of different types will be
        cached separately. For example, f(3) and f(3.0) will be treated as
        distinct calls with distinct results.

        The original underlying function is accessible through the __wrapped__
        attribute. This is useful for introspection, for bypassing the cache,
        or for rewrapping the function with a different cache.

        An additional `__cache_key__` attribute can be used to generate the
        cache key used for the given arguments.

        Remember to call memoize when decorating a callable. If you forget,
        then a TypeError will occur.

        :param str name: name given for callable (default None, automatic)
        :param float timeout: seconds until the item expires
            (default 300 seconds)
        :param int version: key version number (default None, cache parameter)
        :param bool typed: cache different types separately (default False)
        :param str tag: text to associate with arguments (default None)
        :param set ignore: positional or keyword args to ignore (default ())
        :return: callable decorator

        """
        # Caution: Nearly identical code exists in Cache.memoize
        if callable(name):
            raise TypeError('name cannot be callable')

        def decorator(func):
            """Decorator created by memoize() for callable `func`."""
            base = (full_name(func),) if name is None else (name,)

            @wraps(func)
            def wrapper(*args, **kwargs):
                """Wrapper for callable to cache arguments and return values."""
                key = wrapper.__cache_key__(*args, **kwargs)
                result = self.get(key, ENOVAL, version, retry=True)

                if result is ENOVAL:
                    result = func(*args, **kwargs)
                    valid_timeout = (
                        timeout is None
                        or timeout == DEFAULT_TIMEOUT
                        or timeout > 0
                    )
                    if valid_timeout:
                        self.set(
                            key,
                            result,
                            timeout,
                            version,
                            tag=tag,
                            retry=True,
                        )

                return result

            def __cache_key__(*args, **kwargs):
                """Make key for cache given function arguments."""
                return args_to_key(base, args, kwargs, typed, ignore)

            wrapper.__cache_key__ = __cache_key__
            return wrapper

        return decorator
