"""
DiskCache API Reference
=======================

The :doc:`tutorial` provides a helpful walkthrough of most methods.
"""

from .core import (
    DEFAULT_SETTINGS,
    ENOVAL,
    EVICTION_POLICY,
    UNKNOWN,
    Cache,
    Disk,
    EmptyDirWarning,
    JSONDisk,
    Timeout,
    UnknownFileWarning,
)
from .fanout import FanoutCache
from .persistent import Deque, Index
from .recipes import (
    Averager,
    BoundedSemaphore,
    Lock,
    RLock,
    barrier,
    memoize_stampede,
    throttle,
)

__all__ = [
    'Averager',
    'BoundedSemaphore',
    'Cache',
    'DEFAULT_SETTINGS',
    'Deque',
    'Disk',
    'ENOVAL',
    'EVICTION_POLICY',
    'EmptyDirWarning',
    'FanoutCache',
    'Index',
    'JSONDisk',
    'Lock',
    'RLock',
    'Timeout',
    'UNKNOWN',
    'UnknownFileWarning',
    'barrier',
    'memoize_stampede',
    'throttle',
]

try:
    from .djangocache import DjangoCache  # noqa

    __all__.append('DjangoCache')
except Exception:  # pylint: disable=broad-except  # pragma: no cover
    # Django not installed or not setup so ignore.
    pass

__title__ = 'diskcache'
__version__ = '5.6.3'
__build__ = 0x050603
__author__ = 'Grant Jenks'
__license__ = 'Apache 2.0'
__copyright__ = 'Copyright 2016-2023 Grant Jenks'
