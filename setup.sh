#!/bin/sh
# Offline setup: the checks need only hypothesis (already in /venv on this image; installed from the local wheelhouse
# otherwise).  atheris is optional (coverage-guided tiers); it is installed into /verif/.deps when the wheel is present.
set -e
cd "$(dirname "$0")"
export PIP_NO_INDEX=1
if ! /venv/bin/python -c 'import hypothesis' 2>/dev/null; then
  /venv/bin/pip install --no-index --find-links /opt/veriftools/wheels hypothesis
fi
if ! PYTHONPATH=.deps /venv/bin/python -c 'import atheris' 2>/dev/null; then
  /venv/bin/pip install -q --no-index --find-links /opt/veriftools/wheels --target .deps atheris 2>/dev/null || echo "atheris not installed (optional)"
fi
/venv/bin/python -c 'import hypothesis, sys; print("hypothesis", hypothesis.__version__)'
