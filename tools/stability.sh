#!/bin/sh
# tools/stability.sh "<props>" "<seeds>" : run quick checks at several seeds on the unchanged tree; print only failures
cd "$(dirname "$0")/.."
for seed in $2; do
  for p in $1; do
    out=$(VERIF_SEED=$seed VERIF_NO_EVIDENCE=1 ./check $p --tier quick 2>&1); rc=$?
    if [ $rc -ne 0 ]; then echo "FAIL seed=$seed $p rc=$rc"; echo "$out" | grep -E "^---|VIOLATION|HARNESS|Error" | head -4; fi
  done
  echo "seed $seed done"
done
