#!/venv/bin/python
"""Regenerate MANIFEST.json from the table below (kept valid at all times)."""
import json, os

HERE = os.path.dirname(os.path.dirname(os.path.abspath(__file__)))
BASELINE = ("cd /repo && /venv/bin/python -m pytest -ra -q -p no:cacheprovider --timeout=900 "
            "--continue-on-collection-errors")

# id: (level, technique, level text, note, design_ref)
CHECKS = {}
NOT_APPLICABLE = {}

def load():
    import importlib.util
    spec = importlib.util.spec_from_file_location('table', os.path.join(HERE, 'tools', 'manifest_table.py'))
    m = importlib.util.module_from_spec(spec); spec.loader.exec_module(m)
    return m.CHECKS, m.NOT_APPLICABLE

def main():
    checks, na = load()
    out = {
        'version': 1,
        'setup_cmd': './setup.sh',
        'hooks': {
            'guard': 'DISKCACHE_VERIF',
            'enable': 'none needed: the harness replaces the module attributes diskcache.core.time/sqlite3/os/open (the seams the '
                      "repository's own tests patch with mock) at run time; no source hook exists, the guard name is reserved",
            'baseline_off_cmd': BASELINE,
            'source_commits': [],
            'add_only': True,
        },
        'engines': [{
            'name': 'vlib', 'path': 'vlib/engine.py',
            'serves_properties': sorted(checks),
            'kind_free_text': 'Hypothesis-driven generated cases (plus exhaustive enumeration of small scopes) executed by '
                              'interpreters against explicit oracles; 16 forked workers; shrunk failures become replay files',
        }],
        'checks': [],
        'not_applicable': [{'property_id': k, 'reason': v} for k, v in sorted(na.items())],
        'notes': 'See DESIGN.md. KNOWN_FINDINGS.txt lists recorded and repaired defects; corpus/<id>/ holds replayable witnesses.',
    }
    for pid in sorted(checks):
        c = checks[pid]
        out['checks'].append({
            'property_id': pid,
            'quick_cmd': './check %s --tier quick' % pid,
            'thorough_cmd': './check %s --tier thorough' % pid,
            'evidence_file': 'evidence/%s.json' % pid,
            'replay_cmd_template': './check %s --replay {path}' % pid,
            'engine': 'vlib',
            'level_claimed': {'category': c['level'], 'text': c['text'], 'design_ref': c['ref']},
            'level_note': c['note'],
            'technique': c['technique'],
        })
    with open(os.path.join(HERE, 'MANIFEST.json'), 'w') as f:
        json.dump(out, f, indent=1); f.write('\n')
    print('MANIFEST.json: %d checks, %d not applicable' % (len(out['checks']), len(out['not_applicable'])))

main()
