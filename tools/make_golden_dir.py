#!/venv/bin/python
"""Write golden/dir-5.6.3.tar (+ .json manifest) once with the vendored pinned release; both files are committed."""
import io, json, os, shutil, sys, tarfile, tempfile
HERE = os.path.dirname(os.path.dirname(os.path.abspath(__file__)))
sys.path.insert(0, HERE); sys.path.insert(0, os.path.join(HERE, 'golden'))
import pinned_diskcache as p
from vlib.common import enc

root = tempfile.mkdtemp(prefix='verif-golden-', dir='/dev/shm')
keys = ['text', 'é中', '', b'bytes', b'', 0, 1, -1, 2**63 - 1, -(2**63), 2**63, 2**64, 1.5, -2.5, float('inf'), None, True, False,
        (1, 2), ('a', (1, 2.5)), ('t', b'x'), frozenset([1, 2, 3]), (None, True)]
values = [1, 2**70, 1.25, -0.0, float('inf'), 'short', 'line\nfeed', '', b'raw', b'', None, True, (1, 'x'), [1, [2, 3]], {'k': [1, 2]},
          frozenset([1, 2]), b'B' * 40000, 'T' * 40000, 'é' * 20000, {'pad': ['p'] * 20000}, 'x\ny' * 15000, 3, 4]
tags = [None, 't', 3, 'u', None]
man = {'cache': [], 'fanout': [], 'deque': [], 'index': []}
c = p.Cache(os.path.join(root, 'cache'), tag_index=True, statistics=True)
f = p.FanoutCache(os.path.join(root, 'fanout'), shards=3)
for n, (k, v) in enumerate(zip(keys, values)):
    tag = tags[n % len(tags)]
    c.set(k, v, tag=tag, expire=None if n % 3 else 10**9)
    f.set(k, v, tag=tag)
    man['cache'].append([k, v, tag]); man['fanout'].append([k, v, tag])
c.close(); f.close()
d = p.Deque(values[:12], directory=os.path.join(root, 'deque')); man['deque'] = values[:12]; d.cache.close()
ix = p.Index(os.path.join(root, 'index')); 
for k, v in zip(keys[:12], values[8:20]):
    ix[k] = v; man['index'].append([k, v])
ix.cache.close()
with tarfile.open(os.path.join(HERE, 'golden', 'dir-5.6.3.tar'), 'w') as tf:
    for name in ('cache', 'fanout', 'deque', 'index'):
        tf.add(os.path.join(root, name), arcname=name)
json.dump(enc(man), open(os.path.join(HERE, 'golden', 'dir-5.6.3.json'), 'w'))
shutil.rmtree(root)
print('golden directory written:', os.path.getsize(os.path.join(HERE, 'golden', 'dir-5.6.3.tar')), 'bytes')
