#!/venv/bin/python
"""Record golden/routing.json from the vendored pinned copy (run once; the file is committed)."""
import json, os, sys
HERE = os.path.dirname(os.path.dirname(os.path.abspath(__file__)))
sys.path.insert(0, HERE); sys.path.insert(0, os.path.join(HERE, 'golden'))
import pinned_diskcache as p
from vlib.common import enc

keys = []
keys += list(range(-20, 60))
keys += [2**k for k in range(0, 70, 3)] + [-(2**k) for k in range(0, 70, 3)] + [2**63 - 1, -(2**63), 2**63, -(2**63) - 1, 2**64, 10**30]
keys += [float(x) / 4 for x in range(-20, 40)] + [1e300, -1e300, 5e-324, float('inf'), float('-inf'), 2.0**53, 2.0**63]
keys += ['', 'a', 'b', 'ab', 'key', 'KEY', 'é', '中文', '\U0001f600', 'a\x00b', 'x' * 100] + ['k%d' % i for i in range(40)]
keys += [b'', b'a', b'\x00', b'\xff' * 8, b'key'] + [b'k%d' % i for i in range(20)]
keys += [None, True, False, (), (1,), (1, 2), ('a', 1), ('a', (1, 2.5)), (None, True), frozenset(), frozenset([1]), frozenset([1, 2, 3]), ('t', b'x')]
keys = keys[:300]
proto = p.core.DEFAULT_SETTINGS['disk_pickle_protocol']
disk = p.Disk('/nonexistent', pickle_protocol=proto)
out = {'pinned_commit': '5a4f96f6eca9f78200624f2d56775bd9d404ee68', 'pickle_protocol': proto, 'keys': enc(keys), 'hashes': [disk.hash(k) for k in keys]}
json.dump(out, open(os.path.join(HERE, 'golden', 'routing.json'), 'w'), indent=0)
print(len(keys), 'keys recorded')
