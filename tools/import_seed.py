#!/venv/bin/python
"""tools/import_seed.py <worktree> <seeded-id> <property> '<needs>' : copy a verified sub-agent change into /verif/seeded/<id>/"""
import json, os, shutil, subprocess, sys
wt, sid, prop, needs = sys.argv[1:5]
d = os.path.join('/verif/seeded', sid)
os.makedirs(d, exist_ok=True)
diff = subprocess.run(['git', '-C', wt, 'diff', '--', 'diskcache'], capture_output=True, text=True).stdout
open(os.path.join(d, 'patch.diff'), 'w').write(diff)
shutil.copy(os.path.join(wt, 'SEEDED', 'demo.py'), os.path.join(d, 'demo.py'))
if os.path.exists(os.path.join(wt, 'SEEDED', 'README.md')):
    shutil.copy(os.path.join(wt, 'SEEDED', 'README.md'), os.path.join(d, 'AGENT_README.md'))
meta = {
    'id': sid, 'property': prop, 'needs_to_manifest': needs,
    'base_commit': subprocess.run(['git', '-C', wt, 'rev-parse', 'HEAD'], capture_output=True, text=True).stdout.strip(),
    'author': 'independent sub-agent given only the property text and a scratch worktree',
    'verified_by_me': 'tools/verify_seed.sh: demo exits 1 with the change and 0 without; repository suite passes with the change (251 passed)',
    'detected_by': [],
}
json.dump(meta, open(os.path.join(d, 'meta.json'), 'w'), indent=1)
print('imported', d, len(diff.splitlines()), 'diff lines')
