#!/bin/sh
# tools/run_all.sh <seed> [tier] : run every registered check once; print one line per check (exit code, summary)
SEED=${1:-1}; TIER=${2:-quick}
cd "$(dirname "$0")/.."
for i in 01 02 03 04 05 06 07 08 09 10 11 12 13 14 15 16 17 18 19 20; do
  if [ "${NOEV:-1}" = "0" ]; then out=$(VERIF_SEED=$SEED ./check C$i --tier $TIER 2>&1); rc=$?; else out=$(VERIF_SEED=$SEED VERIF_NO_EVIDENCE=1 ./check C$i --tier $TIER 2>&1); rc=$?; fi
  echo "rc=$rc $(echo "$out" | tail -1)"
  [ $rc -ne 0 ] && echo "$out" | grep -E "^---|VIOLATION|HARNESS|Error" | head -5
done
