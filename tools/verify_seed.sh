#!/bin/sh
# tools/verify_seed.sh <worktree> : confirm a sub-agent's seeded change (demo fails with it, passes without, repo suite passes with it)
WT=$1
cd $WT || exit 2
export DJANGO_SETTINGS_MODULE=tests.settings
git diff -- diskcache > /tmp/verify-$$.diff
[ -s /tmp/verify-$$.diff ] || { echo "no change applied in $WT"; exit 2; }
/venv/bin/python -c "import diskcache,sys; sys.exit(0 if diskcache.__file__.startswith('$WT') else 3)" || { echo "wrong import"; exit 2; }
timeout 300 /venv/bin/python SEEDED/demo.py > /tmp/verify-$$.with 2>&1; W=$?
git checkout -q -- diskcache
timeout 300 /venv/bin/python SEEDED/demo.py > /tmp/verify-$$.without 2>&1; WO=$?
git apply /tmp/verify-$$.diff
S=$(timeout 1500 /venv/bin/python -m pytest -q -p no:cacheprovider --timeout=900 -o addopts="" --doctest-glob="*.rst" --ignore docs/case-study-web-crawler.rst --ignore docs/sf-python-2017-meetup-talk.rst --ignore tests/benchmark_core.py --ignore tests/benchmark_djangocache.py --ignore tests/benchmark_glob.py --ignore tests/issue_85.py --ignore tests/plot.py -n 8 2>&1 | tail -3 | tr '\n' ' ')
echo "demo with change: exit $W; without: exit $WO; suite with change: $S"
tail -3 /tmp/verify-$$.with
rm -f /tmp/verify-$$.*
