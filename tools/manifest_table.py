"""Source of MANIFEST.json (tools/gen_manifest.py)."""

PENDING = 'check not built yet in this round (planned in DESIGN.md section 3; generated-input search applies)'

CHECKS = {
    'C03': dict(
        level='exploration',
        technique='model-based testing: exhaustive short histories + Hypothesis-generated long histories vs. a reference dictionary under a virtual clock',
        text='Every call sequence of length <= 3 (quick) / <= 4 (thorough) over a 35-op alphabet, plus random histories of up to '
             '60/200 steps crossing the 100-row pages, is executed on a real Cache and on an independent reference model; every return '
             'value, len after every call and a full scan are compared. Exploration, not proof: it shows agreement on what was generated.',
        note='Trusts the reference model (DESIGN Appendix B, cross-checked against the tutorial) and the virtual-clock seam (self-tested each run).',
        ref='3/C03',
    ),
}

CHECKS.update({
    'C01': dict(
        level='exploration',
        technique='round-trip property over generated values with constructed lengths around the storage threshold (Hypothesis), strict type/bit equality oracle',
        text='Values of every supported kind are built to exact lengths around disk_min_file_size, stored under all pickle protocols with Disk and JSONDisk '
             'and read back through every accessor; equality is strict (type, IEEE bits, code points, recursive). Unstorable values must raise and leave the old value.',
        note='JSONDisk is judged on its own contract (objects via JSON, streams raw). Known finding: Deque indexing on JSONDisk (recorded, excluded by construction, counted).',
        ref='3/C01',
    ),
    'C02': dict(
        level='exploration',
        technique='pairwise key-identity oracle over generated and derived key pairs (Hypothesis), incl. paged sorted iteration',
        text='Pairs of keys, independent or derived across the encoding boundaries (int/float twins, bool/int, str/bytes, bytes equal to a pickle of the other key, '
             'int64 borders), are stored in one cache; equal documented identity must give one entry, different identity two, in every lookup and all four iteration orders.',
        note='Identity oracle is written from the tutorial (Disk, Caveats); both keys are rebuilt by one deterministic builder (pickling caveat, issue #54).',
        ref='3/C02',
    ),
    'C04': dict(
        level='exploration',
        technique='model-based histories under a virtual clock with frozen-clock batches (shared expiry times) and non-positive expiry times',
        text='Expiry-weighted histories (incl. >100 items on one expire_time, expire_time <= 0, cull_limit 0/1/2/10, queues) are compared with the reference model on every '
             'lookup on both sides of the expiry instant, on expire()/cull() completeness and on what lazy culls may remove.',
        note='Exact ties now == expire_time are excluded by construction of the clock; the property is silent there and the code is not uniform.',
        ref='3/C04',
    ),
    'C09': dict(
        level='exploration',
        technique='explain-the-diff validity oracle over generated write/read histories; cull volume observed at the SQL seam; policy keys kept by the model',
        text='After every call each vanished key must be expired or a policy-minimal eviction that happened with observed volume >= size_limit, at most cull_limit per write, '
             'never under policy none; cull() is judged on completeness, order, end state and return value; FanoutCache shards on their divided limit.',
        note='The observed volume is read on the cache\'s own connection immediately before its PRAGMA page_count (seam self-tested).',
        ref='3/C09',
    ),
    'C16': dict(
        level='exploration',
        technique='exhaustive enumeration of small-arity call signatures (cache-key collision oracle with an echo function) + Hypothesis wrapper histories under a virtual clock',
        text='All 82 000 signatures with <= 3 positionals and kwargs within {a,b} over a 9-value alphabet x typed x 5 ignore sets are keyed; equal keys must be calls the '
             'function answers identically. Wrapper histories through all five decorators check result equality, no re-run within expiry, re-run after, expire=0 stores nothing.',
        note='memoize_stampede runs with random pinned to never-early; its probabilistic early recomputation is not judged.',
        ref='3/C16',
    ),
})

NOT_APPLICABLE = {p: PENDING for p in ['C%02d' % i for i in range(1, 21)] if p not in CHECKS}
