"""Source of MANIFEST.json (tools/gen_manifest.py)."""

PENDING = 'check not built yet in this round (planned in DESIGN.md section 3; generated-input search applies)'

CHECKS = {
    'C03': dict(
        level='exploration',
        technique='model-based testing: exhaustive short histories + Hypothesis-generated long histories vs. a reference dictionary under a virtual clock',
        text='Every call sequence of length <= 3 (quick) / <= 4 (thorough) over a 35-op alphabet, plus random histories of up to '
             '60/200 steps crossing the 100-row pages, is executed on a real Cache and on an independent reference model; every return '
             'value, len after every call and a full scan are compared. Exploration, not proof: it shows agreement on what was generated.',
        note='Trusts the reference model (DESIGN Appendix B, cross-checked against the tutorial) and the virtual-clock seam (self-tested each run).',
        ref='3/C03',
    ),
}

NOT_APPLICABLE = {p: PENDING for p in ['C%02d' % i for i in range(1, 21)] if p not in CHECKS}
