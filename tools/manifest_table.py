"""Source of MANIFEST.json (tools/gen_manifest.py)."""

PENDING = 'check not built yet in this round (planned in DESIGN.md section 3; generated-input search applies)'

CHECKS = {
    'C03': dict(
        level='exploration',
        technique='model-based testing: exhaustive short histories + Hypothesis-generated long histories vs. a reference dictionary under a virtual clock',
        text='Every call sequence of length <= 3 (quick) / <= 4 (thorough) over a 35-op alphabet, plus random histories of up to '
             '60/200 steps crossing the 100-row pages, is executed on a real Cache and on an independent reference model; every return '
             'value, len after every call and a full scan are compared. Exploration, not proof: it shows agreement on what was generated.',
        note='Trusts the reference model (DESIGN Appendix B, cross-checked against the tutorial) and the virtual-clock seam (self-tested each run).',
        ref='3/C03',
    ),
}

CHECKS.update({
    'C01': dict(
        level='exploration',
        technique='round-trip property over generated values with constructed lengths around the storage threshold (Hypothesis + atheris/libFuzzer campaigns through fuzz_one_input), strict type/bit equality oracle; single transient I/O fault injection',
        text='Values of every supported kind are built to exact lengths around disk_min_file_size, stored under all pickle protocols with Disk and JSONDisk '
             'over a key that already holds a near twin of the value (1 for 1.0, 0.0 for -0.0, text for its bytes) and read back through every accessor; equality is strict (type, IEEE bits, code points, recursive). Unstorable values must raise and leave the old value; with one transient failure in the file write, source stream or open the store must fail or the value come back intact.',
        note='JSONDisk is judged on its own contract (objects via JSON, streams raw). Known finding: Deque indexing on JSONDisk (recorded, excluded by construction, counted).',
        ref='3/C01',
    ),
    'C02': dict(
        level='exploration',
        technique='pairwise key-identity oracle over generated and derived key pairs (Hypothesis + atheris/libFuzzer campaigns), incl. paged sorted iteration with ties',
        text='Pairs of keys, independent or derived across the encoding boundaries (int/float twins, bool/int, str/bytes, bytes equal to a pickle of the other key, '
             'int64 borders), are stored in one cache; equal documented identity must give one entry, different identity two, in every lookup and all four iteration orders.',
        note='Identity oracle is written from the tutorial (Disk, Caveats); both keys are rebuilt by one deterministic builder (pickling caveat, issue #54).',
        ref='3/C02',
    ),
    'C04': dict(
        level='exploration',
        technique='model-based histories under a virtual clock with frozen-clock batches (shared expiry times) and non-positive expiry times',
        text='Expiry-weighted histories (incl. >100 items on one expire_time, expire_time <= 0, cull_limit 0/1/2/10, queues) are compared with the reference model on every '
             'lookup on both sides of the expiry instant, on expire()/cull() completeness and on what lazy culls may remove; expire()/evict() over several pages are also run against a second client that rewrites expired keys between the pages.',
        note='Exact ties now == expire_time are excluded by construction of the clock; the property is silent there and the code is not uniform.',
        ref='3/C04',
    ),
    'C09': dict(
        level='exploration',
        technique='explain-the-diff validity oracle over generated write/read histories; cull volume observed at the SQL seam; policy keys kept by the model',
        text='After every call each vanished key must be expired or a policy-minimal eviction that happened with observed volume >= size_limit, at most cull_limit per write, '
             'never under policy none; cull() is judged on completeness, order, end state (footprint measured independently: database pages + value files on disk, incl. file-backed non-ASCII text) and return value; FanoutCache shards on their divided limit.',
        note='The observed volume is read on the cache\'s own connection immediately before its PRAGMA page_count (seam self-tested).',
        ref='3/C09',
    ),
    'C16': dict(
        level='exploration',
        technique='exhaustive enumeration of small-arity call signatures (cache-key collision oracle with an echo function) + generated signature pairs (Hypothesis + atheris/libFuzzer) + wrapper histories under a virtual clock',
        text='All 82 000 signatures with <= 3 positionals and kwargs within {a,b} over a 9-value alphabet x typed x 5 ignore sets are keyed; equal keys must be calls the '
             'function answers identically. Wrapper histories through all five decorators check result equality, no re-run within expiry, re-run after, expire=0 stores nothing; '
             'stacked decorators (a memoizer around an already memoized callable, plus a second function on the same cache) must return what the function returns and never share keys.',
        note='memoize_stampede runs with random pinned to never-early; its probabilistic early recomputation is not judged.',
        ref='3/C16',
    ),
})

SCHED_NOTE = ('Statement-granular cooperative schedules (timeout=0) over threads with separate SQLite connections or one shared object, and over forked OS '
              'processes driven through pipes (vlib/procsched.py, where the check has a *_processes sub-check); races inside one SQLite call are not explored. '
              'Trusts the scheduler seams (self-tested each run).')

CHECKS.update({
    'C05': dict(
        level='exploration',
        technique='generated concurrent programs x generated statement-level schedules (cooperative scheduler), Wing-Gong linearizability checker',
        text='2-4 clients x 1-4 calls on shared keys with inline and file-backed values run under generated schedules over every SQL statement and file operation; '
             'the completed history must be linearizable against a dictionary model (only a lookup miss overlapping a write/removal is tolerated); iteration is a weakly consistent scan.',
        note=SCHED_NOTE, ref='3/C05',
    ),
    'C10': dict(
        level='exploration',
        technique='model-based sequences vs. one deque per prefix (Hypothesis) + scheduled producers/consumers with linearizability checking',
        text='Sequences of push/pull/peek over prefixes that extend one another or contain format metacharacters, mixed with ordinary keys and expiring/file-backed items, are judged against independent per-prefix deques; '
             'concurrent producers/consumers under generated schedules must linearize against the same model (exactly-once delivery, per-producer order).',
        note=SCHED_NOTE, ref='3/C10',
    ),
    'C11': dict(
        level='exploration',
        technique='differential testing vs. collections.deque over generated op sequences + scheduled producers/consumers with linearizability checking',
        text='Every Deque method incl. positional access over the out-of-range span, rotate, comparisons, maxlen changes and reopen/pickle/copy events is compared step by step with collections.deque '
             'for six origins, with and without the underlying cache put over its size limit; concurrent append/pop programs must linearize against the bounded deque.',
        note=SCHED_NOTE, ref='3/C11',
    ),
    'C12': dict(
        level='exploration',
        technique='differential testing vs. collections.OrderedDict over generated op sequences + scheduled clients with strict linearizability checking',
        text='Every Index method, views, equality against ordered/unordered mappings and reopen/unpickle events are compared step by step with OrderedDict (origins Index, FanoutCache.index, DjangoCache.index; with and without the underlying cache put over its size limit); concurrent lookups, replacements, '
             'setdefault and popitem under generated schedules must linearize with no tolerated miss.',
        note=SCHED_NOTE, ref='3/C12',
    ),
    'C15': dict(
        level='exploration',
        technique='generated contender programs x generated schedules with an independent critical-section witness; bounded liveness; refusal probes',
        text='2-4 contenders loop acquire/critical section/release on Lock, RLock (nested), BoundedSemaphore (1-3) and barrier-wrapped functions over Cache and FanoutCache; '
             'an independent witness counts simultaneous holders at yield points inside the critical section; releases of what is not held must raise AssertionError and change nothing.',
        note=SCHED_NOTE + ' Liveness is bounded (fair tail, step limit 50x uncontended).', ref='3/C15',
    ),
})

CHECKS.update({
    'C06': dict(
        level='exploration',
        technique='generated block trees with raise points vs. snapshot/rollback of the reference model + rows-vs-files audit; scheduled isolation check with the block as one atomic call',
        text='Block trees (nested blocks, raise points of three exception kinds, handled inner exceptions) over Cache, FanoutCache, Index and Deque transactions are executed against the model: '
             'an outermost raise must restore keys, values read through the API, expiry, tags, len and leave rows and files consistent; concurrent clients (own object or the same object from another '
             'thread) under generated schedules must linearize with the whole block as a single call; two clients running FanoutCache.transact() blocks against a plain writer must neither deadlock nor lose atomicity.',
        note=SCHED_NOTE + ' Known finding: FanoutCache.transact() commits shard by shard, so a reader can see part of a committed block (recorded; recognised by a weaker per-shard-atomic reference, every other loss of atomicity still fails).', ref='3/C06',
    ),
    'C13': dict(
        level='exploration',
        technique='model-based histories through FanoutCache; differential routing vs. the vendored pinned release, fresh interpreters with other hash seeds, and a committed golden file',
        text='C03-style histories over 1/2/3/8/13 shards are compared with the single-cache model incl. aggregates and per-shard iteration order; key batches are routed here, in three fresh '
             'interpreters, by the pinned copy and physically (which shard directory received the row); equal-identity key pairs must share a shard; reset()/reload through two handles is compared step by step with two handles on an unsharded Cache and with the truth (last reset wins) in what every shard persists, in key encoding across handles and in eviction after a policy reload.',
        note='Routing reference = golden/pinned_diskcache (copy of the pinned commit) and golden/routing.json. Known finding: numeric twins route differently (recorded, excluded by construction).',
        ref='3/C13',
    ),
    'C20': dict(
        level='exploration',
        technique='scheduled Averager clients with linearizability checking; throttle under a discrete-event virtual clock with a sliding-window rate oracle',
        text='Averager add/get/pop programs of 2-3 clients under statement-level schedules must linearize against (total, count). Throttled callers with generated arrival gaps run on a '
             'discrete-event clock through time_func/sleep_func; every window of starts must satisfy n <= count + rate*dt and every call must start within a bounded number of wake-ups.',
        note=SCHED_NOTE + ' Throttle callers switch at sleep and call boundaries only.', ref='3/C20',
    ),
})

CHECKS.update({
    'C18': dict(
        level='exploration',
        technique='model-based histories with generated persistence events (reopen, second handle, pickle, thread, fork, fresh interpreter); pinned-writes/current-reads format differential; committed golden directory',
        text='Histories are continued through new handles, unpickled objects, other threads, forked children and fresh interpreters while the reference model ignores the events; every creation setting is '
             're-read from each new handle; FanoutCache/DjangoCache reopen without arguments under absolute, ~ and $VAR spellings of the directory; directories written by the vendored pinned release (all key/value representations, tags, expiry, shards, '
             'Deque, Index) and a committed golden directory must read back item for item and accept appends.',
        note='Format reference = golden/pinned_diskcache and golden/dir-5.6.3.tar. Forking while a transaction is open is outside the generated domain (see DESIGN).',
        ref='3/C18',
    ),
    'C19': dict(
        level='exploration',
        technique='three-way differential over generated call sequences: written contract model, Django LocMemCache, DjangoCache on one virtual clock (plus a frozen-clock variant); scheduled concurrent clients with linearizability checking',
        text='Sequences over the whole backend API x versions x timeout classes x backend parameters are run against the model, Django\'s reference backend and DjangoCache; '
             'model vs LocMemCache disagreement is a harness error (guards the reading of the contract), DjangoCache vs model is the violation; 2-3 concurrent clients (own or shared object) under generated schedules must linearize against a dictionary and surface no database error.',
        note='Where the contract is silent and Django\'s own backends disagree (return of set/clear, delete of an expired-but-present key) the model accepts either.',
        ref='3/C19',
    ),
})

CHECKS.update({
    'C07': dict(
        level='fault_enumeration',
        technique='generated workloads x enumerated kill points (SIGKILL in a forked child at harness yield points); reference-run oracle evaluated through a new handle; thorough tier adds asynchronous kills of a free-running writer (supplementary)',
        text='For every generated workload the yield points (each database statement, file create/write/close/remove, directory create/remove) are enumerated by a reference run; a forked child '
             'kills itself at the chosen point (quick: every label class once per workload; thorough: every point). The directory must open, hold the state before or after the interrupted operation '
             '(compound loops: any transaction boundary of the reference run), serve complete values, accept a write within timeout=1, show only orphan files/empty directories, and be clean after check(fix=True).',
        note='Kill granularity is the harness yield point: SIGKILL inside one SQLite call or write(2) is not explored. The reference contents come from an unkilled twin run.',
        ref='3/C07',
    ),
    'C08': dict(
        level='fault_enumeration',
        technique='generated histories x enumerated single-fault sites (SQL error at the n-th statement, ENOSPC at the n-th file write operation, EIO at the n-th value-file read, unencodable values) + scheduled concurrent programs and transaction blocks; independent rows-vs-files audit',
        text='Each history is first run unfaulted to enumerate its fault sites, then re-run with one injected failure per site (quick: one sampled site; thorough: every site). At quiescence an audit read through a '
             'raw sqlite3 connection and os.walk checks count, size, file-per-row with recorded size, no unreferenced value file, len(), and check().',
        note='unlink failures are not injected (no implementation can then satisfy the property; Disk.remove documents suppression). A failing COMMIT is simulated as SQLite behaves for I/O errors (rollback, then raise).',
        ref='3/C08',
    ),
    'C14': dict(
        level='fault_enumeration',
        technique='complete enumeration of the operation x lock-injector matrix (foreign SQLite connection driven from the SQL seam) + generated pre-states; snapshot-unchanged and unfaulted-twin oracles',
        text='All cells (about 1100) {operation of Cache/FanoutCache/DjangoCache/Deque/Index} x {lock held, taken at the first BEGIN after the value file was written, taken at the second page, released at attempt k} x '
             '{inline,file} x {retry} x {lock-free, statistics, LRU} are all executed, plus generated pre-states: Timeout/Timeout(n)/failure value, audit snapshot unchanged, retried calls equal an unfaulted twin, reads work under lock.',
        note='The lock is a real SQLite write lock taken by a second raw connection; timeout=0 makes contention immediate and deterministic.',
        ref='3/C14',
    ),
    'C17': dict(
        level='fault_enumeration',
        technique='generated damage sets (thorough: every subset of <= 3 damage kinds) against an expected-warning oracle derived from the damage list; convergence and content checks',
        text='Caches and FanoutCache shards (incl. directory names containing cache.db and .val) are damaged out of band; plain check() must report exactly the derived inconsistencies and change nothing, '
             'check(fix=True) the same, a second check() must be empty, undamaged items identical, resized binaries readable, deleted-file items gone, counters equal to the audit.',
        note='Warnings are classified by message prefix; truncated pickles/text files are outside the domain (only deletion).',
        ref='3/C17',
    ),
})

NOT_APPLICABLE = {p: PENDING for p in ['C%02d' % i for i in range(1, 21)] if p not in CHECKS}
