#!/usr/bin/env python3
"""tools/seeded_table.py : regenerate the table of seeded changes in DESIGN.md (section 8.6) from seeded/*/meta.json."""
import glob, json, os, re
root = os.path.join(os.path.dirname(os.path.abspath(__file__)), '..')
rows = []
for p in sorted(glob.glob(os.path.join(root, 'seeded', '*', 'meta.json'))):
    m = json.load(open(p))
    def cell(x, n):
        x = ' '.join(str(x).replace('|', '/').split())
        return x if len(x) <= n else x[: n - 1].rstrip() + '…'
    caught = '; '.join(m.get('detected_by') or []) or '**not detected (outside the property as stated, see note)**'
    note = m.get('missed_at_first') or 'caught at first run'
    rows.append('| `%s` | %s | %s | %s | %s | %s |' % (m['id'], m['property'], m.get('round', 1), cell(m['needs_to_manifest'], 170), cell(caught, 170), cell(note, 600)))
head = '| seeded id | property | round | needs, in order to manifest | caught by | note |\n|---|---|---|---|---|---|\n'
path = os.path.join(root, 'DESIGN.md')
s = open(path).read()
start = s.index(head)
end = s.index('\n### 8.7')
s = s[:start] + head + '\n'.join(rows) + '\n' + s[end:]
open(path, 'w').write(s)
print(len(rows), 'rows')
