#!/usr/bin/env python3
"""tools/regress_seeded.py [id-prefix ...] : run every seeded change against the checks its meta.json names under detected_by
(first one that exits 1 wins); print one line per change and a summary.  Changes recorded as deliberately undetected are skipped."""
import glob, json, os, re, subprocess, sys
root = os.path.dirname(os.path.dirname(os.path.abspath(__file__)))
want = sys.argv[1:]
caught = missed = skipped = 0
for p in sorted(glob.glob(os.path.join(root, 'seeded', '*', 'meta.json'))):
    m = json.load(open(p))
    sid = m['id']
    if want and not any(sid.startswith(w) for w in want):
        continue
    props = []
    for d in m.get('detected_by') or []:
        mo = re.match(r'(C\d\d)', d)
        if mo and mo.group(1) not in props:
            props.append(mo.group(1))
    if not props:
        skipped += 1
        print('%-55s skipped (recorded as outside the property as stated)' % sid, flush=True)
        continue
    ok = None
    for prop in props:
        r = subprocess.run([os.path.join(root, 'tools', 'run_seeded'), sid, prop], capture_output=True, text=True)
        line = [l for l in r.stdout.splitlines() if ' quick: exit ' in l]
        if line and ' exit 1 ' in line[-1] + ' ':
            ok = line[-1]
            break
    if ok:
        caught += 1
        print('%-55s caught   %s' % (sid, ok.split(': ', 1)[1][:110]), flush=True)
    else:
        missed += 1
        print('%-55s MISSED   (ran %s)' % (sid, ' '.join(props)), flush=True)
print('summary: %d caught, %d missed, %d skipped' % (caught, missed, skipped))
