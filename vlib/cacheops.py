"""Interpreter that applies an op list to a real Cache and to CacheModel, comparing after every step.

Shared by C03, C04, C09 and (through an adapter) C13.
"""

import io

from hypothesis import strategies as st

from .common import HarnessError, Violation, short
from .model import CacheModel, ident, same, strict
from .seams import EPS

DFLT = 'DFLT'

POLICIES = ['least-recently-stored', 'least-recently-used', 'least-frequently-used', 'none']


# ---------------------------------------------------------------------------------------------
# value specs: keep big values out of cases


def mkval(spec):
    kind = spec[0]
    if kind in ('i', 'f', 's', 'v'):
        return spec[1]
    if kind == 'B':  # bytes of length n
        return bytes([spec[1] % 256]) * spec[2]
    if kind == 'S':  # text of length n
        return chr(97 + spec[1] % 26) * spec[2]
    if kind == 'U':  # non-ASCII text of n characters (more UTF-8 bytes than characters)
        return ('\u00e9\u4e2d\U0001f600'[spec[1] % 3]) * spec[2]
    if kind == 'P':  # picklable object with a pickle of roughly 2n+ bytes
        return [spec[1] % 100] * spec[2] + ['end']
    raise HarnessError('bad value spec %r' % (spec,))


def is_filey(spec, threshold):
    kind = spec[0]
    if kind in ('B', 'S', 'U'):
        return spec[2] >= threshold
    if kind == 'P':
        import pickle

        return len(pickle.dumps(mkval(spec), protocol=pickle.HIGHEST_PROTOCOL)) >= threshold
    if kind == 's':
        return len(spec[1]) >= threshold
    return False


KEYS = ['a', 'b', 'c', 7, 7.0, b'a', ('t', 1)]
TAGS = [None, 't', 'u', 3]
TTLS = [None, 2.0 ** -21, 0.125, 5, 300, 1e12, 0, -5]
ADVANCES = [0.125, 1, 5, 10, 400]


def value_specs(threshold):
    big = threshold + 3
    return st.one_of(
        st.tuples(st.just('i'), st.integers(-3, 50)),
        st.tuples(st.just('f'), st.sampled_from([0.5, -1.25, 3.0])),
        st.tuples(st.just('s'), st.sampled_from(['', 'x', 'hello'])),
        st.tuples(st.just('B'), st.integers(0, 255), st.just(big)),
        st.tuples(st.just('P'), st.integers(0, 99), st.just(big)),
        st.tuples(st.just('S'), st.integers(0, 25), st.just(big)),
        st.tuples(st.just('U'), st.integers(0, 2), st.just(big)),
        st.tuples(st.just('v'), st.sampled_from([None, True, (1, 'x')])),
    )


def op_strategy(threshold, keys=KEYS, ttls=TTLS, tags=TAGS, advances=ADVANCES, bulk=True, weights=None):
    k = st.sampled_from(keys)
    v = value_specs(threshold)
    ttl = st.sampled_from(ttls)
    tag = st.sampled_from(tags)
    b = st.booleans()
    ops = [
        st.tuples(st.just('set'), k, v, ttl, tag),
        st.tuples(st.just('set'), k, v, ttl, tag),
        st.tuples(st.just('setitem'), k, v),
        st.tuples(st.just('add'), k, v, ttl, tag),
        st.tuples(st.just('get'), k, st.sampled_from([None, DFLT]), b, b, b),
        st.tuples(st.just('get'), k, st.just(None), st.just(False), st.just(False), st.just(False)),
        st.tuples(st.just('getitem'), k),
        st.tuples(st.just('read'), k),
        st.tuples(st.just('in'), k),
        st.tuples(st.just('touch'), k, ttl),
        st.tuples(st.just('incr'), k, st.sampled_from([1, -2, 0.5]), st.sampled_from([0, None, 10, 2.5])),
        st.tuples(st.just('decr'), k, st.sampled_from([1, 3]), st.sampled_from([0, None])),
        st.tuples(st.just('pop'), k, b, b),
        st.tuples(st.just('delete'), k),
        st.tuples(st.just('del'), k),
        st.tuples(st.just('clear')),
        st.tuples(st.just('evict'), st.sampled_from([t for t in tags if t is not None] or ['t'])),
        st.tuples(st.just('expire')),
        st.tuples(st.just('len')),
        st.tuples(st.just('iter')),
        st.tuples(st.just('reversed')),
        st.tuples(st.just('iterkeys'), b),
        st.tuples(st.just('peekitem'), b),
        st.tuples(st.just('stats'), b, b),
        st.tuples(st.just('reopen')),
        st.tuples(st.just('advance'), st.sampled_from(advances)),
        st.tuples(st.just('advance'), st.sampled_from(advances)),
    ]
    if bulk:
        ops.append(
            st.tuples(
                st.just('bulk_set'),
                st.integers(101, 260),
                st.sampled_from([None, 5, 300]),
                st.sampled_from(tags),
                st.sampled_from(['i', 'B']),
            )
        )
        # > 100 items stored at one clock reading with one ttl: they share one expire_time
        ops.append(st.tuples(st.just('frozen_batch'), st.integers(101, 220), st.sampled_from([5, 300, 0.125]), st.sampled_from(['i', 'B'])))
    return st.one_of(*ops)


MUTATORS = {'set', 'setitem', 'add', 'touch', 'incr', 'decr', 'pop', 'delete', 'del'}


def nontrivial_history(ops):
    """>= 2 different mutating methods hit the same key, or a bulk op crossed a page."""
    per_key = {}
    for op in ops:
        if op[0] == 'bulk_set':
            return True
        if op[0] in MUTATORS:
            per_key.setdefault(ident(op[1]), set()).add(op[0])
    return any(len(v) >= 2 for v in per_key.values())


# ---------------------------------------------------------------------------------------------


class Runner:
    """Applies ops to the real cache and the model.  pid prefixes violation signatures."""

    def __init__(self, cache, model, clock, cfg, pid='C03', reopen=None):
        self.c = cache
        self.m = model
        self.clock = clock
        self.cfg = cfg
        self.pid = pid
        self.reopen_fn = reopen
        self.threshold = cfg.get('disk_min_file_size', 32768)
        self.cull_limit = cfg.get('cull_limit', 10)
        self.trace = []
        self.skipped = 0
        self.classes = set()
        self.evicting = False  # C09 sets True: policy evictions are explained, not forbidden

    # -- helpers -------------------------------------------------------------------------------
    def fail(self, what, detail):
        raise Violation(
            '%s/%s' % (self.pid, what),
            '%s\nconfig=%r\nhistory (last 12 of %d):\n  %s'
            % (detail, self.cfg, len(self.trace), '\n  '.join(short(o, 160) for o in self.trace[-12:])),
        )

    def call(self, fn, *a, **k):
        try:
            return ('ok', fn(*a, **k))
        except Exception as e:  # compared with the model's exception type
            return ('exc', type(e).__name__, e)

    def expect(self, op, real, exp, strict_types=True):
        """real/exp: ('ok', value) | ('exc', name)."""
        if real[0] != exp[0]:
            self.fail(op[0] + '/result', 'op %s: real %s, model %s' % (short(op), short(real[:2]), short(exp)))
        if real[0] == 'exc':
            if real[1] != exp[1]:
                self.fail(op[0] + '/exception', 'op %s: real raised %s, model %s' % (short(op), real[1], exp[1]))
            return
        if not same(real[1], exp[1]):
            self.fail(op[0] + '/result', 'op %s: real %s, model %s' % (short(op), short(real[1]), short(exp[1])))

    def check_exp(self, op, real_exp, item):
        if item.lo is None:
            if real_exp is not None:
                self.fail(op[0] + '/expire_time', 'op %s: real expire_time %r, model None' % (short(op), real_exp))
        else:
            if real_exp is None or not (item.lo <= real_exp <= item.hi):
                self.fail(
                    op[0] + '/expire_time',
                    'op %s: real expire_time %r outside model [%r, %r]' % (short(op), real_exp, item.lo, item.hi),
                )

    def check_tag(self, op, real_tag, item):
        if not same(real_tag, item.tag):
            self.fail(op[0] + '/tag', 'op %s: real tag %r, model %r' % (short(op), real_tag, item.tag))

    def materialize(self, value):
        """Turn a read handle into bytes."""
        if hasattr(value, 'read') and not isinstance(value, (bytes, str)):
            try:
                return value.read()
            finally:
                value.close()
        return value

    def real_keys(self):
        return list(self.c)

    def reconcile(self, op, t0, t1, limit):
        """Explain-the-diff after a write that may cull lazily."""
        n_real = len(self.c)
        if n_real == len(self.m.items):
            return
        real = {}
        for k in self.real_keys():
            real[ident(k)] = k
        missing = [i for i in self.m.items if i not in real]
        extra = [i for i in real if i not in self.m.items]
        if extra:
            self.fail(op[0] + '/contents', 'op %s: keys appeared that the model lacks: %s' % (short(op), short(extra)))
        if not missing:
            self.fail(op[0] + '/len', 'op %s: len %d but model has %d items' % (short(op), n_real, len(self.m.items)))
        if len(missing) > limit:
            self.fail(
                'cull/over-limit',
                'op %s removed %d items lazily, cull_limit allows %d' % (short(op), len(missing), limit),
            )
        unexplained = [i for i in missing if self.m.live(self.m.items[i], t0, t1)]
        if unexplained:
            self.explain_evictions(op, unexplained, missing, t0, t1)
        self.classes.add('lazy-cull')
        for i in missing:
            self.m.remove_ident(i)

    def explain_evictions(self, op, unexplained, missing, t0, t1):
        self.fail(
            'removed-live-item',
            'op %s removed live item(s) %s although the size limit was not reached'
            % (short(op), short([self.m.items[i] for i in unexplained])),
        )

    # -- one step ------------------------------------------------------------------------------
    def step(self, op):
        self.trace.append(op)
        name = op[0]
        c, m, clock = self.c, self.m, self.clock
        if name == 'advance':
            clock.advance(op[1])
            return
        t0 = clock.peek()
        handler = getattr(self, 'op_' + name, None)
        if handler is None:
            raise HarnessError('unknown op %r' % (op,))
        handler(op, t0)
        n = len(c)
        if n != len(m.items):
            self.fail(name + '/len', 'after %s: len(cache)=%d, model has %d items' % (short(op), n, len(m.items)))

    def run(self, ops):
        for op in ops:
            self.step(op)

    # -- writes --------------------------------------------------------------------------------
    def _store(self, op, t0, method):
        key, spec = op[1], op[2]
        ttl = op[3] if len(op) > 3 else None
        tag = op[4] if len(op) > 4 else None
        value = mkval(spec)
        filey = is_filey(spec, self.threshold)
        if filey:
            self.classes.add('file-value')
        if method == 'setitem':
            real = self.call(self.c.__setitem__, key, value)
            t1 = self.clock.peek()
            self.m.set(key, value, None, None, t0, t1, filey)
            self.expect(op, real, ('ok', None))
            wrote = True
        elif method == 'set':
            real = self.call(self.c.set, key, value, expire=ttl, tag=tag)
            t1 = self.clock.peek()
            self.expect(op, real, ('ok', self.m.set(key, value, ttl, tag, t0, t1, filey)))
            wrote = True
        else:
            real = self.call(self.c.add, key, value, expire=ttl, tag=tag)
            t1 = self.clock.peek()
            wrote = self.m.add(key, value, ttl, tag, t0, t1, filey)
            self.expect(op, real, ('ok', wrote))
        if wrote:
            self.reconcile(op, t0, t1, self.cull_limit)

    def op_set(self, op, t0):
        self._store(op, t0, 'set')

    def op_setitem(self, op, t0):
        self._store(op, t0, 'setitem')

    def op_add(self, op, t0):
        self._store(op, t0, 'add')

    def op_frozen_batch(self, op, t0):
        """n items stored at one clock reading with one ttl: they share one expire_time."""
        _, n, ttl, kind = op
        self.classes.add('frozen-batch')
        self.clock.time()
        self.clock.frozen = True
        try:
            for j in range(n):
                key = 5000 + j if j % 2 else 'f%03d' % j
                spec = ('i', j) if kind == 'i' else ('B', j, self.threshold + 1)
                t0 = self.clock.peek()
                self._store(('set', key, spec, ttl, None), t0, 'set')
        finally:
            self.clock.frozen = False

    def op_bulk_set(self, op, t0):
        _, n, ttl, tag, kind = op
        self.classes.add('bulk')
        for j in range(n):
            key = 1000 + j if j % 2 else 'k%03d' % j
            spec = ('i', j) if kind == 'i' else ('B', j, self.threshold + 1)
            t0 = self.clock.peek()
            self._store(('set', key, spec, ttl, tag), t0, 'set')

    def op_touch(self, op, t0):
        _, key, ttl = op
        real = self.call(self.c.touch, key, expire=ttl)
        t1 = self.clock.peek()
        self.expect(op, real, ('ok', self.m.touch(key, ttl, t0, t1)))

    def _incr(self, op, t0, sign):
        _, key, delta, default = op
        old = self.m.items.get(ident(key))
        if old is not None:
            # incrementing a non-number is outside the documented domain
            live = self.m.live(old, t0, t0)
            if live and (type(old.value) not in (int, float)):
                self.skipped += 1
                self.trace.pop()
                return
        fn = self.c.incr if sign > 0 else self.c.decr
        real = self.call(fn, key, delta, default)
        t1 = self.clock.peek()
        try:
            value, wrote = self.m.incr(key, sign * delta, default, t0, t1)
            exp = ('ok', value)
        except KeyError:
            exp, wrote = ('exc', 'KeyError'), False
        self.expect(op, real, exp)
        if wrote:
            self.reconcile(op, t0, t1, self.cull_limit)

    def op_incr(self, op, t0):
        self._incr(op, t0, +1)

    def op_decr(self, op, t0):
        self._incr(op, t0, -1)

    # -- reads ---------------------------------------------------------------------------------
    def op_get(self, op, t0):
        _, key, default, read, et, tag = op
        real = self.call(self.c.get, key, default=default, read=read, expire_time=et, tag=tag)
        t1 = self.clock.peek()
        item = self.m.lookup(key, t0, t1)
        if real[0] != 'ok':
            self.fail('get/exception', 'op %s raised %s' % (short(op), real[1]))
        r = real[1]
        if item is None:
            exp = default
            if et and tag:
                exp = (default, None, None)
            elif et or tag:
                exp = (default, None)
            if not same(r, exp):
                self.fail('get/miss-expected', 'op %s: real %s, model says absent/expired' % (short(op), short(r)))
            return
        parts = r if (et or tag) else (r,)
        if (et or tag) and (type(r) is not tuple or len(r) != 1 + bool(et) + bool(tag)):
            self.fail('get/shape', 'op %s: real %s' % (short(op), short(r)))
        value = self.materialize(parts[0])
        if not same(value, item.value):
            self.fail('get/value', 'op %s: real %s, model %s' % (short(op), short(value), short(item.value)))
        idx = 1
        if et:
            self.check_exp(op, parts[idx], item)
            idx += 1
        if tag:
            self.check_tag(op, parts[idx], item)

    def op_getitem(self, op, t0):
        real = self.call(self.c.__getitem__, op[1])
        t1 = self.clock.peek()
        item = self.m.lookup(op[1], t0, t1)
        self.expect(op, real, ('exc', 'KeyError') if item is None else ('ok', item.value))

    def op_read(self, op, t0):
        real = self.call(self.c.read, op[1])
        t1 = self.clock.peek()
        item = self.m.lookup(op[1], t0, t1)
        if real[0] == 'ok':
            real = ('ok', self.materialize(real[1]))
        self.expect(op, real, ('exc', 'KeyError') if item is None else ('ok', item.value))

    def op_in(self, op, t0):
        real = self.call(self.c.__contains__, op[1])
        t1 = self.clock.peek()
        self.expect(op, real, ('ok', self.m.contains(op[1], t0, t1)))

    def op_pop(self, op, t0):
        _, key, et, tag = op
        real = self.call(self.c.pop, key, default=DFLT, expire_time=et, tag=tag)
        t1 = self.clock.peek()
        item = self.m.pop(key, t0, t1)
        if real[0] != 'ok':
            self.fail('pop/exception', 'op %s raised %s' % (short(op), real[1]))
        r = real[1]
        if item is None:
            exp = DFLT
            if et and tag:
                exp = (DFLT, None, None)
            elif et or tag:
                exp = (DFLT, None)
            if not same(r, exp):
                self.fail('pop/miss-expected', 'op %s: real %s, model says absent/expired' % (short(op), short(r)))
            return
        parts = r if (et or tag) else (r,)
        if (et or tag) and (type(r) is not tuple or len(r) != 1 + bool(et) + bool(tag)):
            self.fail('pop/shape', 'op %s: real %s' % (short(op), short(r)))
        if not same(parts[0], item.value):
            self.fail('pop/value', 'op %s: real %s, model %s' % (short(op), short(parts[0]), short(item.value)))
        idx = 1
        if et:
            self.check_exp(op, parts[idx], item)
            idx += 1
        if tag:
            self.check_tag(op, parts[idx], item)

    def op_delete(self, op, t0):
        real = self.call(self.c.delete, op[1])
        t1 = self.clock.peek()
        self.expect(op, real, ('ok', self.m.delete(op[1], t0, t1)))

    def op_del(self, op, t0):
        real = self.call(self.c.__delitem__, op[1])
        t1 = self.clock.peek()
        ok = self.m.delete(op[1], t0, t1)
        if ok:
            if real[0] != 'ok':
                self.fail('del/exception', 'op %s raised %s for a live key' % (short(op), real[1]))
        else:
            self.expect(op, real, ('exc', 'KeyError'))

    # -- queues --------------------------------------------------------------------------------
    def op_push(self, op, t0):
        _, spec, prefix, side, ttl, tag = op
        value = mkval(spec)
        filey = is_filey(spec, self.threshold)
        real = self.call(self.c.push, value, prefix=prefix, side=side, expire=ttl, tag=tag)
        t1 = self.clock.peek()
        exp = self.m.push(value, prefix, side, ttl, tag, t0, t1, filey)
        self.expect(op, real, ('ok', exp))
        self.reconcile(op, t0, t1, self.cull_limit)

    def _pull(self, op, t0, remove):
        _, prefix, side, et, tag = op
        fn = self.c.pull if remove else self.c.peek
        real = self.call(fn, prefix=prefix, default=(None, DFLT), side=side, expire_time=et, tag=tag)
        t1 = self.clock.peek()
        item, removed = self.m.pull(prefix, side, t0, t1, remove=remove)
        if removed:
            self.classes.add('expired-head-skipped')
        if real[0] != 'ok':
            self.fail(op[0] + '/exception', 'op %s raised %s' % (short(op), real[1]))
        r = real[1]
        if item is None:
            exp = (None, DFLT)
            if et and tag:
                exp = ((None, DFLT), None, None)
            elif et or tag:
                exp = ((None, DFLT), None)
            if not same(r, exp):
                self.fail(op[0] + '/empty-expected', 'op %s: real %s, model queue is empty' % (short(op), short(r)))
            return
        parts = r if (et or tag) else (r,)
        if type(parts[0]) is not tuple or len(parts[0]) != 2:
            self.fail(op[0] + '/shape', 'op %s: real %s' % (short(op), short(r)))
        rk, rv = parts[0]
        if not same(rk, item.key) or not same(rv, item.value):
            self.fail(
                op[0] + '/result',
                'op %s: real %s, model %s' % (short(op), short((rk, rv)), short((item.key, item.value))),
            )
        idx = 1
        if et:
            self.check_exp(op, parts[idx], item)
            idx += 1
        if tag:
            self.check_tag(op, parts[idx], item)

    def op_pull(self, op, t0):
        self._pull(op, t0, True)

    def op_peek(self, op, t0):
        self._pull(op, t0, False)

    # -- bulk / views --------------------------------------------------------------------------
    def op_clear(self, op, t0):
        real = self.call(self.c.clear)
        self.expect(op, real, ('ok', self.m.clear()))

    def op_evict(self, op, t0):
        real = self.call(self.c.evict, op[1])
        self.expect(op, real, ('ok', self.m.evict(op[1])))

    def op_expire(self, op, t0):
        n_before = len(self.m.items)
        real = self.call(self.c.expire)
        t1 = self.clock.peek()
        n_exp = self.m.n_expired(t0, t1)
        shared = self._expiry_shape(t0, t1)
        exp = self.m.expire(t0, t1)
        if real[0] != 'ok' or real[1] != exp:
            # classify for the known-finding signature
            raise Violation(
                '%s/expire-incomplete/%s' % (self.pid, shared),
                'expire() returned %s, %d of %d items were expired (%s)\nconfig=%r\nhistory tail: %s'
                % (short(real[:2]), n_exp, n_before, shared, self.cfg, short(self.trace[-6:], 600)),
            )
        if n_exp:
            self.classes.add('expire-removed')
        if n_exp > 100:
            self.classes.add('expire>100')

    def _expiry_shape(self, t0, t1):
        return 'other'

    def op_len(self, op, t0):
        pass  # every step compares len

    def _cmp_keys(self, op, real, exp):
        if real[0] != 'ok':
            self.fail(op[0] + '/exception', 'op %s raised %s' % (short(op), real[1]))
        a = [ident(k) for k in real[1]]
        b = [ident(k) for k in exp]
        if a != b:
            self.fail(op[0] + '/order', 'op %s: real %s, model %s' % (short(op), short(real[1], 400), short(exp, 400)))
        for rk, mk in zip(real[1], exp):
            if ident(rk)[0] != 'num' and strict(rk) != strict(mk):
                self.fail(op[0] + '/key-type', 'op %s: real key %r, model %r' % (short(op), rk, mk))

    def op_iter(self, op, t0):
        self._cmp_keys(op, self.call(lambda: list(self.c)), self.m.keys())

    def op_reversed(self, op, t0):
        self._cmp_keys(op, self.call(lambda: list(reversed(self.c))), self.m.keys()[::-1])

    def op_iterkeys(self, op, t0):
        exp = self.m.sorted_keys()
        if op[1]:
            exp = exp[::-1]
        self._cmp_keys(op, self.call(lambda: list(self.c.iterkeys(reverse=op[1]))), exp)

    def op_peekitem(self, op, t0):
        last = op[1]
        real = self.call(self.c.peekitem, last=last, expire_time=True, tag=True)
        t1 = self.clock.peek()
        try:
            item, removed = self.m.peekitem(last, t0, t1)
        except KeyError:
            self.expect(op, real, ('exc', 'KeyError'))
            return
        if real[0] != 'ok':
            self.fail('peekitem/exception', 'op %s raised %s, model has %r' % (short(op), real[1], item))
        (rk, rv), rexp, rtag = real[1]
        if ident(rk) != ident(item.key) or not same(rv, item.value):
            self.fail(
                'peekitem/result', 'op %s: real %s, model %s' % (short(op), short((rk, rv)), short((item.key, item.value)))
            )
        self.check_exp(op, rexp, item)
        self.check_tag(op, rtag, item)

    def op_stats(self, op, t0):
        real = self.call(self.c.stats, enable=op[1], reset=op[2])
        self.expect(op, real, ('ok', self.m.stats(op[1], op[2])))

    def op_reopen(self, op, t0):
        if self.reopen_fn is None:
            return
        self.c = self.reopen_fn(self.c)

    def scan(self):
        """Full comparison: all four iteration orders and every item's value/expiry/tag."""
        for op in (('iter',), ('reversed',), ('iterkeys', False), ('iterkeys', True)):
            self.step(op)
        for item in list(self.m.items.values()):
            self.step(('get', item.key, DFLT, False, True, True))
