"""Run a small concurrent program under the cooperative scheduler (shared by C05, C06, C10, C11, C12, C15, C20)."""

from .common import HarnessError, Violation
from .sched import Call, Sched, Stuck
from .seams import Controller, Seams


def get_seams(env):
    seams = env.cache.get('seams')
    if seams is None:
        import diskcache.core as core
        import diskcache.fanout as fanout
        import diskcache.recipes as recipes

        seams = Seams()
        seams.install_clock([core, fanout, recipes])
        seams.install_io(core)
        env.cache['seams'] = seams
    seams.clock.adv = 0.0
    seams.clock.reads = 0
    seams.clock.frozen = False
    seams.clock.on_sleep = None
    seams.ctl = Controller()
    return seams


def run_scheduled(env, progs, schedule, open_clients, do_op, pid, max_steps=5000, warm=None, inspect=None, final_ops=()):
    """open_clients(path) -> (clients, closeables); client i runs progs[i] through do_op(client, op).
    Returns (calls, sched)."""
    seams = get_seams(env)
    path = env.scratch.fresh('conc')
    n = len(progs)
    closeables = []
    try:
        clients, closeables = open_clients(path)
        sched = Sched(n, schedule, max_steps=max_steps, clock=seams.clock)
        seams.clock.on_sleep = sched.sleep_event
        calls = []
        cid = [0]

        def body_for(i):
            client = clients[i]

            def body(idx):
                for op in progs[i]:
                    cid[0] += 1
                    call = Call(cid[0], i, op, sched.tick())
                    call.result = do_op(client, op)
                    call.res = sched.tick()
                    calls.append(call)
                    sched.progress()

            return body

        seams.ctl = sched
        try:
            # every thread opens its own connection first, outside the schedule (warm), so that segments address the calls
            prepare = None if warm is None else [(lambda c=clients[i]: warm(c)) for i in range(n)]
            sched.run([body_for(i) for i in range(n)], prepare=prepare)
        except Stuck as exc:
            raise Violation('%s/no-progress' % pid, str(exc))
        finally:
            seams.ctl = Controller()
            seams.clock.on_sleep = None
        # read-back after every client has finished (sequential, by the coordinator): the final state must be explained too
        for op in final_ops:
            cid[0] += 1
            call = Call(cid[0], -1, op, sched.tick())
            call.result = do_op(clients[0], op)
            call.res = sched.tick()
            calls.append(call)
        if inspect is not None:
            inspect(path, clients)
        return calls, sched
    finally:
        for c in closeables:
            try:
                c.close()
            except Exception:
                pass
        env.scratch.drop(path)


def mark_interleaved(calls, trace):
    """A call is interleaved if another client's step fell between two of its own yield points."""
    for c in calls:
        own = [t for (t, cl, _) in trace if cl == c.client and c.inv < t < c.res]
        if len(own) >= 2:
            lo, hi = own[0], own[-1]
            c.interleaved = any(cl != c.client and lo < t < hi for (t, cl, _) in trace)


def fmt(calls):
    return '\n'.join('  ' + repr(c) for c in sorted(calls, key=lambda c: c.inv))


def io_selftest(env):
    import diskcache

    seams = get_seams(env)
    events = []

    class Rec:
        def event(self, kind, label, con=None):
            events.append(kind)

    path = env.scratch.fresh('self')
    c = diskcache.Cache(path, disk_min_file_size=64)
    seams.ctl = Rec()
    try:
        c.set('k', b'v' * 100)
        c.get('k')
    finally:
        seams.ctl = Controller()
        c.close()
        env.scratch.drop(path)
    if events.count('sql') < 3 or 'open' not in events or 'write' not in events or 'read' not in events:
        raise HarnessError('io seams disconnected: a file-backed set/get produced events %r' % events)
