"""Generic driver: Hypothesis / exhaustive enumeration over 16 workers, known findings, corpus, evidence."""

import collections
import glob
import json
import multiprocessing
import os
import sys
import signal
import threading
import time
import traceback

from . import common
from .common import HarnessError, Violation

NWORKERS = int(os.environ.get('VERIF_WORKERS', '16'))


class Env:
    """Per-worker environment handed to SubCheck.execute."""

    def __init__(self, tier, seed, worker, tag='w'):
        self.tier = tier
        self.seed = seed
        self.worker = worker
        self.scratch = common.Scratch('%s%d' % (tag, worker))
        self.cache = {}  # for subchecks that reuse objects between cases

    def close(self):
        for obj in self.cache.values():
            close = getattr(obj, 'close', None)
            if close:
                try:
                    close()
                except Exception:
                    pass
        self.scratch.close()


class SubCheck:
    """One generator + oracle.  Subclasses set name and implement strategy/enumerate/execute."""

    name = 'sub'
    exhaustive = False

    def examples(self, tier):
        return 100

    def budget_s(self, tier):
        return 45 if tier == 'quick' else 900

    def shrink_s(self, tier):
        return 20 if tier == 'quick' else 120

    def strategy(self, tier):
        return None

    def enumerate(self, tier):
        return None

    def execute(self, case, env):
        """Run one case; return dict(nontrivial=bool, classes=[...]); raise Violation."""
        raise NotImplementedError

    def describe(self, case):
        """JSON-able rendering of a case for evidence samples."""
        return common.enc(case)

    def selftest(self, env):
        """Raise HarnessError if a seam this check depends on is disconnected."""


class _CaseHang(BaseException):
    pass


def _alarm(signum, frame):
    raise _CaseHang()


def watched(call, limit, pid, label):
    """call() under a watchdog.  A run normally takes milliseconds to a few seconds; one that is still running after limit / 3
    is interrupted and run ONCE more with the full limit; if it does not finish then either, the library call is reported as
    not returning (<pid>/no-progress/<label>).  A single slow run is never reported.  Main thread only (SIGALRM)."""
    if not limit or threading.current_thread() is not threading.main_thread():
        return call()
    for attempt in (1, 2):
        old = signal.signal(signal.SIGALRM, _alarm)
        signal.setitimer(signal.ITIMER_REAL, limit / 3.0 if attempt == 1 else limit)
        try:
            return call()
        except _CaseHang:
            if attempt == 2:
                raise Violation(
                    '%s/no-progress/%s' % (pid, label),
                    'the run was still going after %d s and, run again, after %d s (such runs take well under a second): a call does not return' % (limit / 3, limit),
                )
        finally:
            signal.setitimer(signal.ITIMER_REAL, 0)
            signal.signal(signal.SIGALRM, old)


def _execute_watched(sub, case, env):
    """sub.execute under the watchdog (default 60 s; sub-checks whose case is a whole batch of runs set case_timeout_s = None
    and watch their single runs themselves)."""
    pid = sub.__class__.__module__.rsplit('.', 1)[-1].upper()
    return watched(lambda: sub.execute(case, env), getattr(sub, 'case_timeout_s', 60), pid, sub.name)


class _Collector:
    def __init__(self, sub, env, known_sigs):
        self.sub = sub
        self.env = env
        self.known = known_sigs
        self.evaluations = 0
        self.nontrivial = set()
        self.classes = collections.Counter()
        self.samples = []
        self.excluded = collections.Counter()
        self.suppressed = set()
        self.failures = []  # (sig, detail, case) in order seen
        self.first_failure_t = None
        self.start = time.monotonic()
        self.budget_hit = False
        self.skipped_after_budget = 0

    def run_case(self, case, searching=True):
        sub, env = self.sub, self.env
        now = time.monotonic()
        if self.first_failure_t is not None:
            if now - self.first_failure_t > sub.shrink_s(env.tier):
                return  # shrink budget exhausted: pretend pass so the shrinker stops
        elif now - self.start > sub.budget_s(env.tier):
            self.budget_hit = True
            self.skipped_after_budget += 1
            return
        try:
            out = _execute_watched(sub, case, env) or {}
        except Violation as v:
            if v.signature in self.known or v.signature in self.suppressed:
                self.excluded[v.signature] += 1
                self.evaluations += 1
                return
            if self.first_failure_t is None:
                self.first_failure_t = time.monotonic()
            self.failures.append((v.signature, v.detail, getattr(v, 'min_case', None) or case))
            raise
        self.evaluations += out.get('count', 1)
        for c in out.get('classes', ()):
            self.classes[c] += 1
        for c, n in (out.get('class_counts') or {}).items():
            self.classes[c] += n
        for h in out.get('nontrivial_keys', ()):
            self.nontrivial.add(h)
        if (out.get('nontrivial_keys') or not self.samples) and len(self.samples) < 2:
            self.samples.append(sub.describe(case))
        if out.get('nontrivial'):
            h = common.case_hash(case)
            if h not in self.nontrivial:
                self.nontrivial.add(h)
                if len(self.samples) < 2:
                    self.samples.append(sub.describe(case))


def _run_hypothesis(sub, col, tier, seed, n):
    import hypothesis
    from hypothesis import HealthCheck, Phase, given, settings

    strat = sub.strategy(tier)
    if strat is None or n <= 0:
        return

    @hypothesis.seed(seed)
    @settings(
        max_examples=n,
        database=None,
        deadline=None,
        derandomize=False,
        report_multiple_bugs=False,
        print_blob=False,
        suppress_health_check=list(HealthCheck),
        phases=[Phase.generate, Phase.shrink],
        verbosity=hypothesis.Verbosity.quiet,
    )
    @given(strat)
    def test(case):
        col.run_case(case)

    test()


def _worker(args):
    (modname, tier, seed, worker, known_sigs, nworkers) = args
    try:
        common.import_repo()
        mod = __import__('vlib.props.' + modname, fromlist=['SUBCHECKS'])
        env = Env(tier, seed, worker)
        results = []
        try:
            for sub in mod.SUBCHECKS:
                res = {
                    'name': sub.name,
                    'evaluations': 0,
                    'nontrivial': set(),
                    'classes': collections.Counter(),
                    'samples': [],
                    'excluded': collections.Counter(),
                    'violations': [],
                    'budget_hit': False,
                    'exhaustive': False,
                    'enumerated': 0,
                }
                suppressed = set()
                # exhaustive part, sharded by index
                cases = sub.enumerate(tier)
                if cases is not None:
                    col = _Collector(sub, env, known_sigs)
                    col.suppressed = suppressed
                    for idx, case in enumerate(cases):
                        if idx % nworkers != worker:
                            continue
                        try:
                            col.run_case(case)
                        except Violation as v:
                            suppressed.add(v.signature)
                            res['violations'].append((v.signature, v.detail, getattr(v, 'min_case', None) or case))
                            col.first_failure_t = None
                        res['enumerated'] += 1
                    res['exhaustive'] = (not col.budget_hit) and bool(getattr(sub, 'exhaustive', False))
                    _merge(res, col)
                # random part
                n = sub.examples(tier)
                rounds = 0
                while n > 0 and rounds < 4:
                    rounds += 1
                    col = _Collector(sub, env, known_sigs)
                    col.suppressed = suppressed
                    try:
                        _run_hypothesis(sub, col, tier, seed * 1000 + worker + 7919 * (rounds - 1), n)
                        _merge(res, col)
                        break
                    except BaseException as exc:  # Violation, Flaky, ...
                        _merge(res, col)
                        if not col.failures:
                            if isinstance(exc, (KeyboardInterrupt, SystemExit)):
                                raise
                            raise HarnessError(
                                'subcheck %s: %s' % (sub.name, traceback.format_exc())
                            )
                        sig, detail, case = _smallest(col.failures)
                        res['violations'].append((sig, detail, case))
                        suppressed.add(sig)
                        n = n - col.evaluations
                results.append(res)
        finally:
            env.close()
        return {'ok': True, 'results': results}
    except BaseException:
        return {'ok': False, 'error': traceback.format_exc()}


def _smallest(failures):
    # the shrinker only keeps smaller failing cases, so the last failure with the final
    # signature is minimal; prefer the shortest encoding among those with that signature
    sig = failures[-1][0]
    same = [f for f in failures if f[0] == sig]
    return min(same, key=lambda f: len(json.dumps(common.enc(f[2]), sort_keys=True)))


def _merge(res, col):
    res['evaluations'] += col.evaluations
    res['nontrivial'] |= col.nontrivial
    res['classes'].update(col.classes)
    for s in col.samples:
        if len(res['samples']) < 2:
            res['samples'].append(s)
    res['excluded'].update(col.excluded)
    res['budget_hit'] = res['budget_hit'] or col.budget_hit


def replay_file(mod, path, env):
    body = common.load_replay(path)
    subs = {s.name: s for s in mod.SUBCHECKS}
    sub = subs.get(body.get('check'))
    if sub is None:
        raise HarnessError('replay %s names unknown check %r' % (path, body.get('check')))
    try:
        sub.execute(body['case'], env)
    except Violation as v:
        return v
    return None


def main(pid, modname, tier, seed, replay=None):
    t0 = time.monotonic()
    common.sweep_stale()
    common.import_repo()
    mod = __import__('vlib.props.' + modname, fromlist=['SUBCHECKS'])
    kf = common.KnownFindings()
    known_sigs = kf.signatures(pid)

    if replay:
        env = Env(tier, seed, 0, tag='r')
        try:
            v = replay_file(mod, replay, env)
        finally:
            env.close()
        if v is None:
            print('replay %s: property held' % replay)
            return 0
        print('replay %s: %s\n%s' % (replay, v.signature, v.detail))
        print('VIOLATION property=%s replay=%s' % (pid, replay))
        return 1

    violations = []  # (sig, detail, path)
    known_lines = []

    # 1. self-tests and corpus
    env = Env(tier, seed, 99, tag='c')
    corpus_replayed = 0
    try:
        for sub in mod.SUBCHECKS:
            sub.selftest(env)
        known_by_replay = {}
        for ent in kf.for_property(pid):
            known_by_replay[os.path.normpath(os.path.join(common.VERIF, ent.get('replay', '')))] = ent
        for path in sorted(glob.glob(os.path.join(common.VERIF, 'corpus', pid, '*.json'))):
            corpus_replayed += 1
            v = replay_file(mod, path, env)
            ent = known_by_replay.get(os.path.normpath(path))
            if ent is not None:
                if v is not None and v.signature == ent['signature']:
                    known_lines.append('KNOWN-FINDING: property=%s %s [%s]' % (pid, ent['text'], ent['signature']))
                elif v is not None:
                    violations.append((v.signature, v.detail, path))
                else:
                    print('note: known finding %s no longer reproduces from %s' % (ent['signature'], path))
            elif v is not None:
                if v.signature in known_sigs:
                    continue
                violations.append((v.signature, v.detail, path))
    finally:
        env.close()

    # 2. generated search
    nworkers = NWORKERS
    ctx = multiprocessing.get_context('fork')
    args = [(modname, tier, seed, w, known_sigs, nworkers) for w in range(nworkers)]
    with ctx.Pool(nworkers) as pool:
        outs = pool.map(_worker, args, chunksize=1)
    errors = [o['error'] for o in outs if not o['ok']]
    if errors:
        sys.stderr.write('HARNESS ERROR in worker:\n%s\n' % errors[0])
        return 2

    subs = {s.name: s for s in mod.SUBCHECKS}
    coverage_subs = {}
    total_eval = 0
    all_nontrivial = set()
    samples = []
    by_sig = {}
    excluded_total = collections.Counter()
    exhaustive_all = True
    for name in subs:
        ev = 0
        nt = set()
        classes = collections.Counter()
        excl = collections.Counter()
        budget_hit = False
        sub_samples = []
        enumerated = 0
        exhaustive = None
        for o in outs:
            for r in o['results']:
                if r['name'] != name:
                    continue
                ev += r['evaluations']
                nt |= r['nontrivial']
                classes.update(r['classes'])
                excl.update(r['excluded'])
                budget_hit = budget_hit or r['budget_hit']
                enumerated += r['enumerated']
                if r['enumerated']:
                    exhaustive = r['exhaustive'] if exhaustive is None else (exhaustive and r['exhaustive'])
                for s in r['samples']:
                    if len(sub_samples) < 2:
                        sub_samples.append(s)
                for sig, detail, case in r['violations']:
                    cur = by_sig.get(sig)
                    size = len(json.dumps(common.enc(case), sort_keys=True))
                    if cur is None or size < cur[0]:
                        by_sig[sig] = (size, detail, case, name)
        total_eval += ev
        all_nontrivial |= {name + ':' + h for h in nt}
        excluded_total.update(excl)
        coverage_subs[name] = {
            'evaluations': ev,
            'distinct_nontrivial': len(nt),
            'classes': dict(sorted(classes.items())),
            'budget_hit': budget_hit,
            'excluded_known': dict(excl),
        }
        if enumerated:
            coverage_subs[name]['enumerated'] = enumerated
            coverage_subs[name]['exhaustive'] = bool(exhaustive)
        for s in sub_samples:
            samples.append({'check': name, 'case': s})

    for sig, (size, detail, case, name) in sorted(by_sig.items()):
        path = common.write_replay(pid, name, case, sig, detail, tier, seed)
        violations.append((sig, detail, path))

    wall = time.monotonic() - t0
    coverage = {
        'evaluations': total_eval,
        'distinct_nontrivial': len(all_nontrivial),
        'rule': mod.RULE,
        'samples': samples[:8],
        'subchecks': coverage_subs,
        'excluded_known': dict(excluded_total),
        'corpus_replayed': corpus_replayed,
        'workers': nworkers,
    }
    extra = getattr(mod, 'extra_coverage', None)
    if extra:
        coverage.update(extra())
    common.write_evidence(
        pid, tier, seed, mod.LEVEL, coverage, wall, len(violations), mod.ASSUMPTIONS
    )
    for line in known_lines:
        print(line)
    for sig, detail, path in violations:
        print('--- %s\n%s' % (sig, detail[:3000]))
        print('VIOLATION property=%s replay=%s' % (pid, os.path.relpath(path, common.VERIF)))
    print(
        '%s %s seed=%d: %d cases, %d distinct non-trivial, %d violation(s), %.1fs'
        % (pid, tier, seed, total_eval, len(all_nontrivial), len(violations), wall)
    )
    return 1 if violations else 0
