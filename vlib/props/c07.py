"""C07 — a process killed at any instant leaves a usable, self-consistent cache."""

import os
import pickle
import signal
import warnings

from hypothesis import strategies as st

from ..audit import Snapshot
from ..common import HarnessError, Violation, case_hash, short
from ..conc import get_seams, io_selftest
from ..engine import SubCheck
from ..model import strict
from ..seams import Controller, sql_label

LEVEL = 'fault_enumeration'
RULE = (
    'a workload of 1-8 operations (every mutating Cache method incl. bulk removals over > 100 rows, transaction blocks, '
    'Deque append/appendleft/pop/popleft/extend/rotate, Index set/del/pop/popitem/setdefault/update; inline and file-backed '
    'values; a small size_limit in some cases so that eviction deletes files) runs in a forked child that SIGKILLs itself '
    'at yield point k (before each database statement, file create, write chunk, close, remove, directory create/remove); '
    'no Python or SQLite cleanup runs; the child logs each completed operation with a raw write to a pipe. quick tier: a '
    'stratified sample (every label class of the workload at least once); thorough tier: EVERY kill point of every '
    'generated workload. Oracle, evaluated through a new handle: the directory opens; contents equal the reference run '
    'after the logged operations or after those plus the interrupted one (bulk removals and compound loops may be partly '
    'applied); every listed key yields its complete value; a write succeeds within timeout=1; the audit finds only '
    'unreferenced files and empty directories, check() agrees, and after check(fix=True) a second check() is clean with '
    'contents unchanged. non-trivial = the kill landed strictly inside an operation that touches a file-backed value or '
    'inside a multi-statement transaction; distinct by (workload hash, kill label, ordinal)'
)
ASSUMPTIONS = [
    'kills happen at the harness yield points (statement/file-operation granularity), not inside one SQLite call or one write(2)',
    'the reference contents come from an unkilled run of the same workload on a twin directory',
    'workloads use no expiry, so reference contents do not depend on the clock',
]

KEYS = ['a', 'b', 'c']


def mkv(v):
    if type(v) is tuple and len(v) == 2 and v[0] == 'B':
        return bytes([v[1]]) * 300
    if type(v) is tuple and len(v) == 2 and v[0] == 'T':
        return chr(97 + v[1] % 26) * 300
    if type(v) is tuple and len(v) == 2 and v[0] == 'P':
        return {'n': v[1], 'pad': 'p' * 300}
    if type(v) is tuple and len(v) == 2 and v[0] == 'U':
        return ('\u00e9\u4e2d\U0001f600'[v[1] % 3]) * 300
    return v


vals = st.one_of(
    st.tuples(st.just('U'), st.integers(0, 2)),
    st.integers(0, 9),
    st.tuples(st.just('B'), st.integers(0, 255)),
    st.tuples(st.just('B'), st.integers(0, 255)),
    st.tuples(st.just('T'), st.integers(0, 25)),
    st.tuples(st.just('P'), st.integers(0, 9)),
)


def cache_ops():
    k = st.sampled_from(KEYS)
    simple = st.one_of(
        st.tuples(st.just('set'), k, vals),
        st.tuples(st.just('set'), k, vals),
        st.tuples(st.just('add'), k, vals),
        st.tuples(st.just('incr'), st.just('n')),
        st.tuples(st.just('touch'), k),
        st.tuples(st.just('pop'), k),
        st.tuples(st.just('delete'), k),
        st.tuples(st.just('push'), vals, st.sampled_from(['back', 'front'])),
        st.tuples(st.just('pull'), st.sampled_from(['back', 'front'])),
    )
    return st.one_of(
        simple,
        simple,
        simple,
        st.tuples(st.just('block'), st.lists(simple, min_size=1, max_size=3)),
        st.tuples(st.just('bulk-clear'), st.integers(101, 130), st.sampled_from(['i', 'B'])),
        st.tuples(st.just('bulk-evict'), st.integers(101, 130), st.sampled_from(['i', 'B'])),
        st.tuples(st.just('cull')),
    )


def deque_ops():
    return st.one_of(
        st.tuples(st.just('append'), vals),
        st.tuples(st.just('append'), vals),
        st.tuples(st.just('appendleft'), vals),
        st.tuples(st.just('pop')),
        st.tuples(st.just('popleft')),
        st.tuples(st.just('extend'), st.lists(vals, min_size=1, max_size=3)),
        st.tuples(st.just('rotate'), st.integers(-2, 2)),
        st.tuples(st.just('setitem'), st.integers(-2, 2), vals),
        st.tuples(st.just('delitem'), st.integers(-2, 2)),
    )


def index_ops():
    k = st.sampled_from(KEYS)
    return st.one_of(
        st.tuples(st.just('set'), k, vals),
        st.tuples(st.just('set'), k, vals),
        st.tuples(st.just('del'), k),
        st.tuples(st.just('pop'), k),
        st.tuples(st.just('popitem'), st.booleans()),
        st.tuples(st.just('setdefault'), k, vals),
        st.tuples(st.just('update'), st.lists(st.tuples(k, vals), min_size=1, max_size=3)),
    )


COMPOUND = {'fill', 'clear', 'evict', 'cull', 'extend', 'rotate', 'update'}


def expand(ops):
    """bulk-clear / bulk-evict are generated as one unit and run as two operations: fill, then the paged removal."""
    out = []
    for op in ops:
        if op[0] in ('bulk-clear', 'bulk-evict'):
            out.append(('fill', op[1], op[2]))
            out.append(('clear',) if op[0] == 'bulk-clear' else ('evict',))
        else:
            out.append(op)
    return out


@st.composite
def workload(draw):
    target = draw(st.sampled_from(['cache', 'cache', 'deque', 'index']))
    ops_s = {'cache': cache_ops(), 'deque': deque_ops(), 'index': index_ops()}[target]
    return {
        'target': target,
        'size_limit': draw(st.sampled_from([None, None, 50000])) if target == 'cache' else None,
        'maxlen': draw(st.sampled_from([None, 2])) if target == 'deque' else None,
        'pre': draw(st.lists(ops_s, max_size=4)),
        'ops': draw(st.lists(ops_s, min_size=1, max_size=8)),
        'picks': draw(st.lists(st.integers(0, 10**6), min_size=24, max_size=24)),
        # the kill may also land while the directory is being created for the first time (no pre-state then)
        'kill_in_creation': draw(st.integers(0, 4)) == 0,
    }


def open_target(path, case, timeout=60):
    import diskcache

    kw = dict(disk_min_file_size=64, timeout=timeout)
    t = case['target']
    if t == 'cache':
        if case.get('size_limit'):
            kw['size_limit'] = case['size_limit']
        c = diskcache.Cache(path, **kw)
        return c, c
    c = diskcache.Cache(path, eviction_policy='none', **kw)
    if t == 'deque':
        return diskcache.Deque.fromcache(c, maxlen=case.get('maxlen')), c
    return diskcache.Index.fromcache(c), c


def apply(obj, target, op):
    name = op[0]
    try:
        if target == 'cache':
            c = obj
            if name in ('set', 'add'):
                getattr(c, name)(op[1], mkv(op[2]), tag='t')
            elif name == 'incr':
                c.incr('n')
            elif name == 'touch':
                c.touch(op[1], expire=10**9)
            elif name == 'pop':
                c.pop(op[1])
            elif name == 'delete':
                c.delete(op[1])
            elif name == 'push':
                c.push(mkv(op[1]), prefix='q', side=op[2])
            elif name == 'pull':
                c.pull(prefix='q', side=op[1])
            elif name == 'block':
                with c.transact():
                    for inner in op[1]:
                        apply(c, target, inner)
            elif name == 'fill':
                for j in range(op[1]):
                    c.set('bulk%03d' % j, j if op[2] == 'i' else bytes([j % 256]) * 100, tag='bulk')
            elif name == 'clear':
                c.clear()
            elif name == 'evict':
                c.evict('bulk')
            elif name == 'cull':
                c.cull()
            else:
                raise HarnessError('unknown op %r' % (op,))
        elif target == 'deque':
            d = obj
            if name in ('append', 'appendleft'):
                getattr(d, name)(mkv(op[1]))
            elif name in ('pop', 'popleft'):
                getattr(d, name)()
            elif name == 'extend':
                d.extend([mkv(v) for v in op[1]])
            elif name == 'rotate':
                d.rotate(op[1])
            elif name == 'setitem':
                d[op[1]] = mkv(op[2])
            elif name == 'delitem':
                del d[op[1]]
        else:
            i = obj
            if name == 'set':
                i[op[1]] = mkv(op[2])
            elif name == 'del':
                del i[op[1]]
            elif name == 'pop':
                i.pop(op[1])
            elif name == 'popitem':
                i.popitem(last=op[1])
            elif name == 'setdefault':
                i.setdefault(op[1], mkv(op[2]))
            elif name == 'update':
                i.update([(k, mkv(v)) for k, v in op[1]])
    except (KeyError, IndexError):
        pass


def logical(obj, cache, target):
    """Contents through the API.  Returns (dict or list, unreadable keys)."""
    if target == 'deque':
        keys = list(cache.iterkeys())
        out, bad = [], []
        for k in keys:
            v = cache.get(k, 'MISSING-VALUE')
            if type(v) is str and v == 'MISSING-VALUE':
                bad.append(k)
            out.append(v)
        return out, bad
    out, bad = {}, []
    for k in cache:
        v = cache.get(k, 'MISSING-VALUE')
        if type(v) is str and v == 'MISSING-VALUE':
            bad.append(k)
        out[repr(k)] = v
    return out, bad


class Counter(Controller):
    def __init__(self, kill_at=None, on_commit=None):
        self.on_commit = on_commit
        self.after_commit = False
        self.busy = False
        self.n = 0
        self.labels = []
        self.kill_at = kill_at
        self.active = False
        self.op = -1

    def event(self, kind, label, con=None):
        if not self.active or self.busy or kind in ('sql-error', 'opened', 'connect', 'read'):
            return
        lab = sql_label(label) if kind == 'sql' else '%s:%s' % (kind, label)
        if self.on_commit is not None:
            if self.after_commit:
                self.after_commit = False
                self.busy = True
                try:
                    self.on_commit(self.op)
                finally:
                    self.busy = False
            if lab == 'sql:COMMIT':
                self.after_commit = True
        if lab.startswith('sql:PRAGMA') or lab.startswith('sql:SELECT'):
            return  # killing before a pure read equals killing before the next write
        self.n += 1
        if self.kill_at is None:
            self.labels.append((self.op, lab))
        elif self.n == self.kill_at:
            os.kill(os.getpid(), signal.SIGKILL)


def reference_run(env, case):
    """Unkilled run on a twin directory: contents after every op, yield-point labels."""
    seams = get_seams(env)
    path = env.scratch.fresh('c07ref')
    creation = Counter()
    if case.get('kill_in_creation'):
        creation.op = -1
        creation.active = True
        seams.ctl = creation
    try:
        obj, cache = open_target(path, case)
    finally:
        creation.active = False
        seams.ctl = Controller()
    observer_obj, observer = open_target(path, case)
    mids = {}

    def on_commit(j):
        # contents at a transaction boundary inside operation j (read through a second handle)
        mids.setdefault(j, []).append(logical(observer_obj, observer, case['target'])[0])

    ctl = Counter(on_commit=on_commit)
    ctl.n = creation.n
    ctl.labels = list(creation.labels)
    states = []
    try:
        for op in ([] if case.get('kill_in_creation') else case['pre']):
            apply(obj, case['target'], op)
        states.append(logical(obj, cache, case['target'])[0])
        seams.ctl = ctl
        for j, op in enumerate(case['ops']):
            ctl.op = j
            ctl.active = True
            apply(obj, case['target'], op)
            ctl.active = False
            ctl.after_commit = False
            states.append(logical(obj, cache, case['target'])[0])
        return states, ctl.labels, mids
    finally:
        seams.ctl = Controller()
        cache.close()
        observer.close()
        env.scratch.drop(path)


def killed_run(env, case, k):
    """Fork a child that runs the workload and kills itself at yield point k.  Returns (path, completed ops, killed?)."""
    seams = get_seams(env)
    path = env.scratch.fresh('c07')
    # the pre-state is built in the child too, so that the parent never holds a connection to the directory
    r, w = os.pipe()
    pid = os.fork()
    if pid == 0:
        try:
            os.close(r)
            ctl = Counter(kill_at=k)
            seams.ctl = ctl
            if case.get('kill_in_creation'):
                os.write(w, b'P')
                ctl.op = -1
                ctl.active = True
            obj, cache = open_target(path, case)
            ctl.active = False
            if not case.get('kill_in_creation'):
                for op in case['pre']:
                    apply(obj, case['target'], op)
                os.write(w, b'P')
            for j, op in enumerate(case['ops']):
                ctl.op = j
                ctl.active = True
                apply(obj, case['target'], op)
                ctl.active = False
                os.write(w, bytes([65 + j]))
            os.write(w, b'!')
        finally:
            os._exit(0)
    os.close(w)
    data = b''
    while True:
        chunk = os.read(r, 4096)
        if not chunk:
            break
        data += chunk
    os.close(r)
    _, status = os.waitpid(pid, 0)
    killed = os.WIFSIGNALED(status) and os.WTERMSIG(status) == signal.SIGKILL
    if not data.startswith(b'P'):
        raise HarnessError('child died before the workload started (status %r)' % status)
    done = len([b for b in data[1:] if b != ord('!')])
    return path, done, killed


def verdict(env, case, path, done, killed, states, label, mids):
    import diskcache

    target = case['target']
    sig = 'C07'
    ops = case['ops']
    desc = 'target=%s kill at %r; %d of %d ops logged complete; interrupted op: %s\nworkload pre=%s ops=%s' % (
        target, label, done, len(ops), short(ops[done], 120) if done < len(ops) else None, short(case['pre'], 300), short(ops, 500))
    try:
        obj, cache = open_target(path, case, timeout=1)
    except Exception as exc:
        raise Violation('C07/cannot-open', 'opening the directory after the kill raised %r\n%s' % (exc, desc))
    try:
        try:
            real, unreadable = logical(obj, cache, target)
        except Exception as exc:
            raise Violation('C07/contents-unreadable/%s' % type(exc).__name__, 'reading the cache back raised %r\n%s' % (exc, desc))
        if unreadable:
            raise Violation('C07/listed-key-without-value', 'keys %s are listed but yield no value\n%s' % (short(unreadable, 200), desc))
        before = states[done]
        after = states[done + 1] if done < len(ops) else states[done]
        opname = ops[done][0] if done < len(ops) else None
        if isinstance(label, tuple) and len(label) > 2 and label[2] == -1:
            after, opname = before, 'creation'  # killed while the directory was being created: nothing was stored yet
        ok = strict(real) == strict(before) or strict(real) == strict(after)
        if not ok and opname in COMPOUND:
            # bulk removals and compound loops may be partly applied: any transaction boundary of the reference run
            ok = any(strict(real) == strict(m) for m in mids.get(done, []))
        if not ok:
            which = 'lost-completed-op' if done > 0 and strict(real) == strict(states[done - 1]) else 'not-before-nor-after'
            raise Violation(
                'C07/contents/%s/%s' % (which, opname),
                'contents after the kill %s\nare neither the state before the interrupted operation %s\nnor after it %s\n%s'
                % (short(real, 500), short(before, 500), short(after, 500), desc),
            )
        # nothing left by the dead process blocks writers
        try:
            cache.set('__probe__', 1)
            cache.delete('__probe__')
        except Exception as exc:
            raise Violation('C07/writers-blocked', 'a write with timeout=1 after the kill raised %r\n%s' % (exc, desc))
        real, unreadable = logical(obj, cache, target)  # the probe write may itself evict under a small size_limit
        probs = Snapshot(path).problems(allow_orphans=True)
        if probs:
            raise Violation('C07/audit/%s' % probs[0][0], 'more than the permitted debris: %s\n%s' % (short(probs, 400), desc))
        with warnings.catch_warnings():
            warnings.simplefilter('always')
            w1 = [str(w.message) for w in cache.check()]
            bad = [m for m in w1 if 'unknown file' not in m and 'empty directory' not in m]
            if bad:
                raise Violation('C07/check-reports', 'check() reports %s\n%s' % (short(bad, 300), desc))
            cache.check(fix=True)
            w2 = [str(w.message) for w in cache.check()]
        if w2:
            kind = 'empty-directory' if all('empty directory' in m for m in w2) else 'other'
            raise Violation('C07/repair-not-clean/%s' % kind, 'after check(fix=True) a second check() still reports %s (first check: %s)\n%s' % (short(w2, 300), short(w1, 300), desc))
        again, unreadable = logical(obj, cache, target)
        if unreadable or strict(again) != strict(real):
            raise Violation('C07/repair-changed-contents', 'check(fix=True) changed the contents: %s -> %s\n%s' % (short(real, 300), short(again, 300), desc))
        return w1
    finally:
        cache.close()


class Kills(SubCheck):
    case_timeout_s = 1800  # one case is a whole batch of runs (every kill point / fault site of a history)
    name = 'kill_points'

    def examples(self, tier):
        return 12 if tier == 'quick' else 60

    def strategy(self, tier):
        return workload()

    def execute(self, case, env):
        case = dict(case, pre=expand(case['pre']), ops=expand(case['ops']))
        states, labels, mids = reference_run(env, case)
        total = len(labels)
        if total == 0:
            return {'nontrivial': False, 'classes': ['no-yield-points']}
        if case.get('kill') is not None:
            chosen = [case['kill']]
        elif env.tier == 'quick':
            by_label = {}
            for idx, (j, lab) in enumerate(labels):
                by_label.setdefault(lab, []).append(idx + 1)
            chosen = []
            for n, (lab, idxs) in enumerate(sorted(by_label.items())):
                chosen.append(idxs[case['picks'][n % len(case['picks'])] % len(idxs)])
        else:
            chosen = list(range(1, total + 1))
        h = case_hash({k: case.get(k) for k in ('target', 'size_limit', 'maxlen', 'pre', 'ops', 'kill_in_creation')})
        nontrivial_keys = []
        classes = {}
        count = 0
        for k in chosen:
            j, lab = labels[k - 1]
            path, done, killed = killed_run(env, case, k)
            try:
                if not killed:
                    raise HarnessError('child was not killed at yield point %d of %d (label %s)' % (k, total, lab))
                count += 1
                try:
                    debris = verdict(env, case, path, done, killed, states, (k, lab, j), mids)
                except Violation as v:
                    v.min_case = dict(case, kill=k)
                    raise
            finally:
                env.scratch.drop(path)
            classes['kill@' + lab] = classes.get('kill@' + lab, 0) + 1
            if debris:
                classes['debris-left'] = classes.get('debris-left', 0) + 1
            if j < 0:
                classes['kill-in-creation'] = classes.get('kill-in-creation', 0) + 1
                nontrivial_keys.append('%s/creation/%s/%d' % (h, lab, k))
                continue
            op = case['ops'][j]
            inside = done == j and any(l[0] == j for l in labels[:k - 1])
            filey = 'B' in repr(op) or 'T' in repr(op) or 'P' in repr(op) or op[0].startswith('bulk')
            multi = sum(1 for l in labels if l[0] == j and l[1].startswith('sql:') and not l[1].startswith('sql:BEGIN') and not l[1].startswith('sql:COMMIT')) >= 2
            if inside and (filey or multi):
                nontrivial_keys.append('%s/%s/%d' % (h, lab, k))
        classes['kill-points-%s' % ('sampled' if env.tier == 'quick' else 'enumerated')] = len(chosen)
        return {'count': count, 'nontrivial_keys': nontrivial_keys, 'class_counts': classes}

    def selftest(self, env):
        io_selftest(env)


class AsyncKills(SubCheck):
    case_timeout_s = 1800  # one case is a whole batch of runs (every kill point / fault site of a history)
    """Supplementary, thorough tier only: the parent sends SIGKILL to a free-running child after a generated delay, so the
    kill can land inside one SQLite call (statement execution, WAL write, checkpoint).  Not schedulable, hence not
    replayable from its inputs: a failure's replay file records the workload and the delay, and the verdict is the same
    oracle as for scheduled kills.  It never decides the property alone."""

    name = 'async_kills_supplementary'

    def examples(self, tier):
        return 0 if tier == 'quick' else 150

    def budget_s(self, tier):
        return 600

    def strategy(self, tier):
        return st.fixed_dictionaries(
            {
                'delay_us': st.integers(0, 30000),
                'file_values': st.booleans(),
                'txn': st.booleans(),
                'n_keys': st.integers(1, 6),
            }
        )

    def execute(self, case, env):
        import time as real_time

        import diskcache

        path = env.scratch.fresh('c07a')
        r, w = os.pipe()
        pid = os.fork()
        if pid == 0:
            try:
                os.close(r)
                c = diskcache.Cache(path, disk_min_file_size=64)
                os.write(w, b'S')
                j = 0
                while True:
                    j += 1
                    k = 'k%d' % (j % case['n_keys'])
                    v = bytes([j % 256]) * 300 if case['file_values'] else j
                    if case['txn']:
                        with c.transact():
                            c.set(k, v)
                            c.set(k + 'b', v)
                    else:
                        c.set(k, v)
                    if j % 7 == 0:
                        c.pop(k)
            finally:
                os._exit(0)
        os.close(w)
        try:
            if os.read(r, 1) != b'S':
                raise HarnessError('async child did not start')
            real_time.sleep(case['delay_us'] / 1e6)
            os.kill(pid, signal.SIGKILL)
            os.waitpid(pid, 0)
        finally:
            os.close(r)
        try:
            desc = 'asynchronous SIGKILL %d us into a free-running writer (file_values=%r, txn=%r)' % (case['delay_us'], case['file_values'], case['txn'])
            try:
                c = diskcache.Cache(path, timeout=1)
            except Exception as exc:
                raise Violation('C07/async/cannot-open', '%s: reopening raised %r' % (desc, exc))
            try:
                bad = []
                for k in c:
                    v = c.get(k, 'MISSING-VALUE')
                    if type(v) is str and v == 'MISSING-VALUE':
                        bad.append(k)
                    elif type(v) is bytes and (len(v) != 300 or v != bytes([v[0]]) * 300):
                        raise Violation('C07/async/torn-value', '%s: key %r holds a torn value' % (desc, k))
                    if case['txn'] and not k.endswith('b') and (k + 'b') in c and c.get(k + 'b') != v and type(v) is not str:
                        raise Violation('C07/async/half-transaction', '%s: %r and %r were written in one transaction but differ' % (desc, k, k + 'b'))
                if bad:
                    raise Violation('C07/async/listed-key-without-value', '%s: keys %r are listed but unreadable' % (desc, bad))
                c.set('__probe__', 1)
                probs = Snapshot(path).problems(allow_orphans=True)
                if probs:
                    raise Violation('C07/async/audit/%s' % probs[0][0], '%s: %s' % (desc, short(probs, 300)))
                from ..common import run_check

                w1 = run_check(c)
                other = [m for m in w1 if 'unknown file' not in m and 'empty directory' not in m]
                if other:
                    raise Violation('C07/async/check-reports', '%s: check() reports %s' % (desc, short(other, 300)))
                run_check(c, fix=True)
                w2 = run_check(c)
                if w2:
                    raise Violation('C07/async/repair-not-clean', '%s: after check(fix=True): %s' % (desc, short(w2, 300)))
                return {'nontrivial': len(c) > 1, 'classes': ['async', 'debris' if w1 else 'clean']}
            finally:
                c.close()
        finally:
            env.scratch.drop(path)


SUBCHECKS = [Kills(), AsyncKills()]
