"""C04 — items are visible until their expiry time passes and never afterwards."""

from hypothesis import strategies as st

from ..cacheops import DFLT, POLICIES, Runner, value_specs
from ..engine import SubCheck
from . import c03

LEVEL = 'exploration'
RULE = (
    'histories weighted to expiry-sensitive calls (set/add/touch/incr/get/in/pop/delete/push/pull/peek/peekitem/'
    'expire/cull and plain writes that cull lazily) with clock steps, cull_limit in {0,1,2,10}, frozen-clock batches '
    'of 101-350 items sharing one expire_time, and huge negative ttls (expire_time <= 0), judged against the reference '
    'model: liveness of every lookup, expire() count and leftovers, lazy culls remove only expired items and at most '
    'cull_limit; non-trivial = an item was looked up on both sides of its expiry instant, or expire()/a lazy cull '
    'met >= 1 expired item; distinct by SHA-1 of the canonical case'
)
ASSUMPTIONS = c03.ASSUMPTIONS[:2] + [
    'cull() is judged here only on its effect on expired items; its return value and policy order are C09',
    'queue calls use prefixes q and r, which no ordinary generated key extends (prefix interference is C10)',
]

NEG_HUGE = -4194304.0  # expire_time <= 0 under the virtual clock base 2**20
TTLS = [None, 2.0 ** -21, 0.125, 5, 300, 1e12, 0, -5, NEG_HUGE]
KEYS = ['a', 'b', 'c', 7, b'a']


class ExpiryRunner(Runner):
    def _expiry_shape(self, t0, t1):
        counts = {}
        nonpos = False
        for it in self.m.items.values():
            if not self.m.live(it, t0, t1):
                counts[it.lo] = counts.get(it.lo, 0) + 1
                if it.hi <= 0:
                    nonpos = True
        if counts and max(counts.values()) > 100:
            self.classes.add('shared-expiry>100')
            return 'shared-expiry'
        if nonpos:
            return 'nonpositive-expiry'
        return 'other'

    def op_expire(self, op, t0):
        self._expiry_shape(t0, t0)
        Runner.op_expire(self, op, t0)

    def op_cull(self, op, t0):
        real = self.call(self.c.cull)
        t1 = self.clock.peek()
        n_exp = self.m.n_expired(t0, t1)
        shape = self._expiry_shape(t0, t1)
        self.m.expire(t0, t1)
        if real[0] != 'ok':
            self.fail('cull/exception', 'cull() raised %s' % real[1])
        n = len(self.c)
        if n != len(self.m.items):
            from ..common import Violation, short

            raise Violation(
                '%s/expire-incomplete/%s' % (self.pid, shape),
                'cull(): %d expired items, afterwards len(cache)=%d but %d items are unexpired\nconfig=%r\ntail: %s'
                % (n_exp, n, len(self.m.items), self.cfg, short(self.trace[-6:], 600)),
            )
        if n_exp:
            self.classes.add('expire-removed')


def ops(threshold):
    k = st.sampled_from(KEYS)
    v = value_specs(threshold)
    ttl = st.sampled_from(TTLS)
    b = st.booleans()
    prefix = st.sampled_from(['q', 'r'])
    side = st.sampled_from(['front', 'back'])
    return st.one_of(
        st.tuples(st.just('set'), k, v, ttl, st.none()),
        st.tuples(st.just('set'), k, v, ttl, st.none()),
        st.tuples(st.just('add'), k, v, ttl, st.none()),
        st.tuples(st.just('touch'), k, ttl),
        st.tuples(st.just('incr'), k, st.just(1), st.sampled_from([0, None])),
        st.tuples(st.just('get'), k, st.just(DFLT), b, st.just(True), st.just(False)),
        st.tuples(st.just('getitem'), k),
        st.tuples(st.just('in'), k),
        st.tuples(st.just('in'), k),
        st.tuples(st.just('pop'), k, st.just(True), st.just(False)),
        st.tuples(st.just('delete'), k),
        st.tuples(st.just('del'), k),
        st.tuples(st.just('push'), v, prefix, side, ttl, st.none()),
        st.tuples(st.just('pull'), prefix, side, b, st.just(False)),
        st.tuples(st.just('peek'), prefix, side, b, st.just(False)),
        st.tuples(st.just('peekitem'), b),
        st.tuples(st.just('expire')),
        st.tuples(st.just('expire')),
        st.tuples(st.just('cull')),
        st.tuples(st.just('setitem'), k, v),
        st.tuples(st.just('advance'), st.sampled_from([0.125, 1, 5, 10, 400])),
        st.tuples(st.just('advance'), st.sampled_from([0.125, 1, 5, 10, 400])),
        st.tuples(st.just('advance'), st.sampled_from([0.125, 1, 5, 10, 400])),
        st.tuples(st.just('frozen_batch'), st.integers(101, 350), st.sampled_from([5, 0.125, -5, 300, NEG_HUGE]), st.sampled_from(['i', 'i', 'B'])),
        st.tuples(st.just('bulk_set'), st.integers(101, 260), st.sampled_from([5, 0.125, 300, None]), st.none(), st.just('i')),
        st.tuples(st.just('iter')),
    )


class Histories(SubCheck):
    name = 'expiry_histories'

    def examples(self, tier):
        return 150 if tier == "quick" else 2500

    def strategy(self, tier):
        steps = 40 if tier == 'quick' else 120

        @st.composite
        def case(draw):
            cfg = {
                'eviction_policy': draw(st.sampled_from(POLICIES)),
                'statistics': draw(st.booleans()),
                'disk_min_file_size': draw(st.sampled_from([8, 32768])),
                'cull_limit': draw(st.sampled_from([0, 1, 2, 10])),
            }
            seq = draw(st.lists(ops(cfg['disk_min_file_size']), min_size=2, max_size=steps))
            return {'cfg': cfg, 'ops': seq}

        return case()

    def execute(self, case, env):
        r = c03.run_history(env, case['cfg'], case['ops'], pid='C04', runner_cls=ExpiryRunner)
        classes = sorted(r.classes)
        nontrivial = r.m.both_sides > 0 or 'expire-removed' in r.classes or 'lazy-cull' in r.classes
        if r.m.both_sides:
            classes.append('lookup-both-sides')
        return {'nontrivial': nontrivial, 'classes': classes}

    def selftest(self, env):
        c03.Random().selftest(env)


class FanoutExpireUnderContention(SubCheck):
    """FanoutCache.expire()/cull() while another writer holds, releases or repeatedly takes a shard's lock: every expired
    item of every shard must still be removed and counted (the total equals that of an undisturbed twin)."""

    name = 'fanout_expire_under_contention'
    exhaustive = True

    def examples(self, tier):
        return 0

    def enumerate(self, tier):
        for name in ('expire', 'cull'):
            for inj in (('release', 1), ('release', 2), ('release', 3), ('flap',)):
                for val in ('inline', 'file'):
                    yield {'cell': ('fanout', 'loop:' + name, inj, val, True, 'fast')}

    def execute(self, case, env):
        from ..common import Violation
        from . import c14

        cell = tuple(tuple(x) if isinstance(x, list) else x for x in case['cell'])
        try:
            return c14.execute_cell(env, cell, {})
        except Violation as v:
            raise Violation('C04/fanout-expire-incomplete/' + v.signature.split('/', 1)[1], v.detail)


SUBCHECKS = [Histories(), FanoutExpireUnderContention()]
