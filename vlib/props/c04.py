"""C04 — items are visible until their expiry time passes and never afterwards."""

from hypothesis import strategies as st

from ..cacheops import DFLT, POLICIES, Runner, value_specs
from ..common import HarnessError, short
from ..engine import SubCheck
from . import c03

LEVEL = 'exploration'
RULE = (
    'histories weighted to expiry-sensitive calls (set/add/touch/incr/get/in/pop/delete/push/pull/peek/peekitem/'
    'expire/cull and plain writes that cull lazily) with clock steps, cull_limit in {0,1,2,10}, frozen-clock batches '
    'of 101-350 items sharing one expire_time, and huge negative ttls (expire_time <= 0), judged against the reference '
    'model: liveness of every lookup, expire() count and leftovers, lazy culls remove only expired items and at most '
    'cull_limit; under contention: expire()/evict(tag) over 101-230 expired or tagged items while a second client rewrites some of them '
    'between the pages (built + generated schedules): rewritten keys alive with the new value, the rest gone, bystanders untouched; non-trivial = an item was looked up on both sides of its expiry instant, or expire()/a lazy cull '
    'met >= 1 expired item; distinct by SHA-1 of the canonical case'
)
ASSUMPTIONS = c03.ASSUMPTIONS[:2] + [
    'cull() is judged here only on its effect on expired items; its return value and policy order are C09',
    'queue calls use prefixes q and r, which no ordinary generated key extends (prefix interference is C10)',
]

NEG_HUGE = -4194304.0  # expire_time <= 0 under the virtual clock base 2**20
TTLS = [None, 2.0 ** -21, 0.125, 5, 300, 1e12, 0, -5, NEG_HUGE]
KEYS = ['a', 'b', 'c', 7, b'a']


class ExpiryRunner(Runner):
    def _expiry_shape(self, t0, t1):
        counts = {}
        nonpos = False
        for it in self.m.items.values():
            if not self.m.live(it, t0, t1):
                counts[it.lo] = counts.get(it.lo, 0) + 1
                if it.hi <= 0:
                    nonpos = True
        if counts and max(counts.values()) > 100:
            self.classes.add('shared-expiry>100')
            return 'shared-expiry'
        if nonpos:
            return 'nonpositive-expiry'
        return 'other'

    def op_expire(self, op, t0):
        self._expiry_shape(t0, t0)
        Runner.op_expire(self, op, t0)

    def op_cull(self, op, t0):
        real = self.call(self.c.cull)
        t1 = self.clock.peek()
        n_exp = self.m.n_expired(t0, t1)
        shape = self._expiry_shape(t0, t1)
        self.m.expire(t0, t1)
        if real[0] != 'ok':
            self.fail('cull/exception', 'cull() raised %s' % real[1])
        n = len(self.c)
        if n != len(self.m.items):
            from ..common import Violation, short

            raise Violation(
                '%s/expire-incomplete/%s' % (self.pid, shape),
                'cull(): %d expired items, afterwards len(cache)=%d but %d items are unexpired\nconfig=%r\ntail: %s'
                % (n_exp, n, len(self.m.items), self.cfg, short(self.trace[-6:], 600)),
            )
        if n_exp:
            self.classes.add('expire-removed')


def ops(threshold):
    k = st.sampled_from(KEYS)
    v = value_specs(threshold)
    ttl = st.sampled_from(TTLS)
    b = st.booleans()
    prefix = st.sampled_from(['q', 'r'])
    side = st.sampled_from(['front', 'back'])
    return st.one_of(
        st.tuples(st.just('set'), k, v, ttl, st.none()),
        st.tuples(st.just('set'), k, v, ttl, st.none()),
        st.tuples(st.just('add'), k, v, ttl, st.none()),
        st.tuples(st.just('touch'), k, ttl),
        st.tuples(st.just('incr'), k, st.just(1), st.sampled_from([0, None])),
        st.tuples(st.just('get'), k, st.just(DFLT), b, st.just(True), st.just(False)),
        st.tuples(st.just('getitem'), k),
        st.tuples(st.just('in'), k),
        st.tuples(st.just('in'), k),
        st.tuples(st.just('pop'), k, st.just(True), st.just(False)),
        st.tuples(st.just('delete'), k),
        st.tuples(st.just('del'), k),
        st.tuples(st.just('push'), v, prefix, side, ttl, st.none()),
        st.tuples(st.just('pull'), prefix, side, b, st.just(False)),
        st.tuples(st.just('peek'), prefix, side, b, st.just(False)),
        st.tuples(st.just('peekitem'), b),
        st.tuples(st.just('expire')),
        st.tuples(st.just('expire')),
        st.tuples(st.just('cull')),
        st.tuples(st.just('setitem'), k, v),
        st.tuples(st.just('advance'), st.sampled_from([0.125, 1, 5, 10, 400])),
        st.tuples(st.just('advance'), st.sampled_from([0.125, 1, 5, 10, 400])),
        st.tuples(st.just('advance'), st.sampled_from([0.125, 1, 5, 10, 400])),
        st.tuples(st.just('frozen_batch'), st.integers(101, 350), st.sampled_from([5, 0.125, -5, 300, NEG_HUGE]), st.sampled_from(['i', 'i', 'B'])),
        st.tuples(st.just('bulk_set'), st.integers(101, 260), st.sampled_from([5, 0.125, 300, None]), st.none(), st.just('i')),
        st.tuples(st.just('iter')),
    )


class Histories(SubCheck):
    name = 'expiry_histories'

    def examples(self, tier):
        return 150 if tier == "quick" else 2500

    def strategy(self, tier):
        steps = 40 if tier == 'quick' else 120

        @st.composite
        def case(draw):
            cfg = {
                'eviction_policy': draw(st.sampled_from(POLICIES)),
                'statistics': draw(st.booleans()),
                'disk_min_file_size': draw(st.sampled_from([8, 32768])),
                'cull_limit': draw(st.sampled_from([0, 1, 2, 10])),
            }
            seq = draw(st.lists(ops(cfg['disk_min_file_size']), min_size=2, max_size=steps))
            return {'cfg': cfg, 'ops': seq}

        return case()

    def execute(self, case, env):
        r = c03.run_history(env, case['cfg'], case['ops'], pid='C04', runner_cls=ExpiryRunner)
        classes = sorted(r.classes)
        nontrivial = r.m.both_sides > 0 or 'expire-removed' in r.classes or 'lazy-cull' in r.classes
        if r.m.both_sides:
            classes.append('lookup-both-sides')
        return {'nontrivial': nontrivial, 'classes': classes}

    def selftest(self, env):
        c03.Random().selftest(env)


class FanoutExpireUnderContention(SubCheck):
    """FanoutCache.expire()/cull() while another writer holds, releases or repeatedly takes a shard's lock: every expired
    item of every shard must still be removed and counted (the total equals that of an undisturbed twin)."""

    name = 'fanout_expire_under_contention'
    exhaustive = True

    def examples(self, tier):
        return 0

    def enumerate(self, tier):
        for name in ('expire', 'cull'):
            for inj in (('release', 1), ('release', 2), ('release', 3), ('flap',)):
                for val in ('inline', 'file'):
                    yield {'cell': ('fanout', 'loop:' + name, inj, val, True, 'fast')}

    def execute(self, case, env):
        from ..common import Violation
        from . import c14

        cell = tuple(tuple(x) if isinstance(x, list) else x for x in case['cell'])
        try:
            return c14.execute_cell(env, cell, {})
        except Violation as v:
            raise Violation('C04/fanout-expire-incomplete/' + v.signature.split('/', 1)[1], v.detail)


class PagedRemovalUnderContention(SubCheck):
    """expire() / evict(tag) work through more than one page of 100 rows, releasing the write lock between pages, while a
    second client with its own handle rewrites some of the expired (tagged) keys under a generated schedule.  Whatever the
    interleaving: a key the second client wrote successfully is alive afterwards with that value (written before the
    remover reached it, it is no longer expired/tagged; written after, it is new), every expired (tagged) key nobody
    rewrote is gone, and the untouched live items survive."""

    name = 'paged_removal_under_contention'

    def examples(self, tier):
        return 40 if tier == 'quick' else 1500

    def strategy(self, tier):
        @st.composite
        def case(draw):
            n = draw(st.sampled_from([101, 120, 150, 199, 201, 230]))
            rewrites = draw(st.lists(st.tuples(st.sampled_from(['set', 'add', 'incr', 'setitem']), st.integers(0, n - 1), st.booleans()), min_size=1, max_size=4, unique_by=lambda t: t[1]))
            # the remover gets through a generated number of its statements, then the writer runs, then the remover goes on
            schedule = [(0, draw(st.integers(1, 12))), (1, draw(st.sampled_from([3, 6, 9, 14, 30]))), (0, draw(st.integers(1, 12))), (1, 60)]
            schedule += draw(st.lists(st.tuples(st.integers(0, 1), st.integers(1, 12)), max_size=6))
            return {'n': n, 'remover': draw(st.sampled_from(['expire', 'expire', 'evict'])), 'rewrites': rewrites, 'file': draw(st.booleans()), 'schedule': schedule}

        return case()

    def execute(self, case, env):
        import diskcache

        from ..common import Violation
        from ..conc import fmt, run_scheduled

        n = case['n']
        keys = ['g%03d' % i for i in range(n)]
        old = (lambda i: bytes([i % 251]) * 80) if case['file'] else (lambda i: 'old-%d' % i)

        def open_clients(path):
            a = diskcache.Cache(path, timeout=0, disk_min_file_size=64, cull_limit=0)
            for i, k in enumerate(keys):
                a.set(k, old(i), expire=1.0, tag='t')
            a.set('live-1', 'L1')
            a.set('live-2', b'L' * 100, expire=10**6)
            if case['remover'] == 'expire':
                env.cache['seams'].clock.advance(100.0)
            b = diskcache.Cache(path, timeout=0)
            return [a, b], [a, b]

        def do_op(cache, op):
            try:
                if op[0] == 'expire':
                    return ('ok', cache.expire(retry=True))
                if op[0] == 'evict':
                    return ('ok', cache.evict('t', retry=True))
                if op[0] == 'get':
                    return ('ok', cache.get(op[1], 'MISS'))
                if op[0] == 'len':
                    return ('ok', len(cache))
                k = keys[op[1]]
                v = ('new-%d' % op[1]) if not op[2] else bytes([255 - op[1] % 200]) * 90
                if op[0] == 'set':
                    return ('ok', cache.set(k, v, retry=True))
                if op[0] == 'setitem':
                    cache[k] = v
                    return ('ok', True)
                if op[0] == 'add':
                    return ('ok', cache.add(k, v, retry=True))
                if op[0] == 'incr':
                    return ('ok', cache.incr(k, 5, retry=True))
                if op[0] == 'get':
                    return ('ok', cache.get(op[1], 'MISS'))
                if op[0] == 'len':
                    return ('ok', len(cache))
            except Exception as exc:
                return ('exc', type(exc).__name__)
            raise HarnessError('unknown op %r' % (op,))

        # (a live tagged text value cannot be incremented: under evict() the increment becomes a plain set)
        rewrites = [(('set' if r[0] == 'incr' and case['remover'] == 'evict' else r[0]), r[1], r[2]) for r in case['rewrites']]
        progs = [[(case['remover'],)], rewrites]
        finals = [('get', k) for k in keys] + [('get', 'live-1'), ('get', 'live-2'), ('len',)]
        calls, sched = run_scheduled(env, progs, case['schedule'], open_clients, do_op, 'C04', warm=lambda c: c._sql, final_ops=finals, max_steps=20000)
        if sched.limit_hit:
            return {'nontrivial': False, 'classes': ['step-limit']}
        remover = [c for c in calls if c.client == 0][0]
        writes = [c for c in calls if c.client == 1]
        final = {c.op[1]: c.result for c in calls if c.client == -1 and c.op[0] == 'get'}
        what = '%s() over %d %s items' % (case['remover'], n, 'expired' if case['remover'] == 'expire' else 'tagged')
        for c in [remover] + writes:
            if c.result[0] != 'ok':
                raise Violation('C04/paged-removal/raised/%s' % c.result[1], '%s: call %r raised\n%s' % (what, c, fmt(calls[:8])))
        expect = {}
        for c in writes:
            kind, i, big = c.op
            k = keys[i]
            v = ('new-%d' % i) if not big else bytes([255 - i % 200]) * 90
            if kind == 'incr':
                expect[k] = 5  # an expired counter restarts at the default
            elif kind == 'add':
                if case['remover'] == 'expire':
                    if c.result != ('ok', True):
                        raise Violation('C04/paged-removal/add-refused', '%s: add over the expired key %r returned %r' % (what, k, c.result))
                    expect[k] = v
                elif c.result == ('ok', True):
                    expect[k] = v  # the tagged item had already been evicted: the add created a new untagged one
                else:
                    expect[k] = 'GONE'  # refused: the tagged item was still there, and the eviction then takes it
            else:
                expect[k] = v
        for k in keys:
            got = final[k]
            want = expect.get(k, 'GONE')
            if want == 'GONE':
                if got != ('ok', 'MISS'):
                    raise Violation('C04/paged-removal/left-behind', '%s: key %r nobody rewrote still reads %r afterwards\nwrites %r' % (what, k, short(got), writes))
            elif got != ('ok', want):
                raise Violation(
                    'C04/paged-removal/live-item-removed',
                    '%s while another client rewrote %r: afterwards it reads %s, expected %s\nremover %r\nwrites %r\nsteps %r'
                    % (what, k, short(got), short(want), remover, writes, sched.trace[:60]),
                )
        if final['live-1'] != ('ok', 'L1') or final['live-2'] != ('ok', b'L' * 100):
            raise Violation('C04/paged-removal/bystander-removed', '%s removed an item that was neither expired nor tagged: %r %r' % (what, final['live-1'], short(final['live-2'])))
        mid = any(remover.inv < w.inv and w.res < remover.res for w in writes)
        return {'nontrivial': mid, 'classes': ['remover=' + case['remover']] + (['write-between-pages'] if mid else [])}


SUBCHECKS = [Histories(), FanoutExpireUnderContention(), PagedRemovalUnderContention()]
