"""C15 — Lock, RLock and BoundedSemaphore exclude across threads and processes."""

from hypothesis import strategies as st

from ..common import HarnessError, Violation, short
from ..conc import fmt, get_seams, io_selftest, run_scheduled
from ..engine import SubCheck

LEVEL = 'exploration'
RULE = (
    '2-4 contenders x 1-3 loops of acquire -> critical section -> release (well-formed: a client releases only what it '
    'holds), nested RLock depth 1-3, semaphore values 1-3, barrier(cache, Lock|RLock|BoundedSemaphore)-wrapped '
    'functions, on Cache and FanoutCache(2), threads sharing one object or owning one each, under generated '
    'statement-level schedules with a yield point inside the critical section; oracle = an independent witness of '
    'enter/exit events: concurrent holders <= 1 (Lock, RLock) or <= value; refusal probes: RLock.release by a thread '
    'that does not hold it or at depth 0 and BoundedSemaphore.release at full value raise AssertionError and change '
    'nothing (RLock contenders may also attempt such refused releases between their loops); bounded liveness: all contenders finish within 50x the uncontended step count under the fair tail. '
    'non-trivial = some contender had to wait (slept) while the resource was held; distinct by SHA-1 of the case'
)
ASSUMPTIONS = [
    'contenders are threads (separate SQLite connections, or one shared Cache object) and, in process_contenders, forked OS processes',
    'liveness is bounded: a fair round-robin tail and a step limit; hitting the limit is reported as a violation',
]

KINDS = ['lock', 'rlock', 'sem', 'barrier-lock', 'barrier-rlock', 'barrier-sem']


@st.composite
def case_strategy(draw):
    kind = draw(st.sampled_from(KINDS))
    n = draw(st.integers(2, 4))
    clients = []
    for _ in range(n):
        loops = draw(st.integers(1, 3))
        if kind == 'rlock':
            clients.append([draw(st.integers(1, 3)) for _ in range(loops)])
        else:
            clients.append([1] * loops)
    return {
        'kind': kind,
        'value': draw(st.integers(1, 3)) if kind.endswith('sem') else 1,
        'cache': draw(st.sampled_from(['cache', 'cache', 'fanout'])),
        'mode': draw(st.sampled_from(['own', 'shared'])),
        'clients': clients,
        'schedule': draw(st.lists(st.tuples(st.integers(0, n - 1), st.one_of(st.integers(1, 12), st.sampled_from([16, 20, 25, 30, 40, 60]))), max_size=16)),
        'probe': draw(st.booleans()),
        # RLock only: these contenders also try, between their loops, to release the lock while they do not hold it (refused,
        # AssertionError, nothing changes): a transaction that ends with an exception while others wait or hold the lock
        'refusers': draw(st.lists(st.integers(0, n - 1), max_size=2, unique=True)) if kind == 'rlock' else [],
    }


class Contenders(SubCheck):
    name = 'contenders'

    def examples(self, tier):
        return 150 if tier == 'quick' else 6000

    def strategy(self, tier):
        return case_strategy()

    def execute(self, case, env):
        import diskcache
        from diskcache import recipes

        seams = get_seams(env)
        kind, value, n = case['kind'], case['value'], len(case['clients'])
        limit = value if kind.endswith('sem') else 1
        witness = {'holders': 0, 'max': 0, 'log': []}
        sched_box = {}

        def factory(cache):
            base = kind.replace('barrier-', '')
            if base == 'lock':
                mk = lambda c, key, expire=None, tag=None: recipes.Lock(c, key, expire=expire, tag=tag)
            elif base == 'rlock':
                mk = lambda c, key, expire=None, tag=None: recipes.RLock(c, key, expire=expire, tag=tag)
            else:
                mk = lambda c, key, expire=None, tag=None: recipes.BoundedSemaphore(c, key, value=value, expire=expire, tag=tag)
            return mk

        def critical(i):
            witness['holders'] += 1
            witness['max'] = max(witness['max'], witness['holders'])
            witness['log'].append(('enter', i, witness['holders']))
            if witness['holders'] > limit:
                witness['bad'] = list(witness['log'][-6:])
            for _ in range(3):
                sched_box['s'].event('cs', 'inside')  # yield points inside the critical section
            witness['holders'] -= 1
            witness['log'].append(('exit', i, witness['holders']))

        def open_clients(path):
            def mkcache():
                if case['cache'] == 'fanout':
                    return diskcache.FanoutCache(path, shards=2, timeout=0)
                return diskcache.Cache(path, timeout=0)

            if case['mode'] == 'shared':
                base = mkcache()
                caches = [base] * n
                closeables = [base]
            else:
                caches = [mkcache() for _ in range(n)]
                closeables = caches
            clients = []
            for i, c in enumerate(caches):
                mk = factory(c)
                if kind.startswith('barrier'):
                    fn = recipes.barrier(c, mk, name='the-lock')(lambda i=i: critical(i))
                    clients.append(('barrier', fn, i))
                else:
                    clients.append(('plain', mk(c, 'the-lock'), i))
            return clients, closeables

        def do_op(client, op):
            what, obj, i = client
            if op[0] == 'refused':
                try:
                    obj.release()
                except AssertionError:
                    return ('ok', None)
                except Exception as exc:
                    return ('exc', type(exc).__name__)
                return ('exc', 'release-of-unheld-lock-accepted')
            depth = op[1]
            try:
                if what == 'barrier':
                    obj()
                else:
                    for _ in range(depth):
                        obj.acquire()
                    critical(i)
                    for _ in range(depth):
                        obj.release()
                return ('ok', None)
            except Exception as exc:
                return ('exc', type(exc).__name__)

        progs = [[('loop', d) for d in loops] for loops in case['clients']]
        for i in case.get('refusers', []):
            progs[i] = [x for d in progs[i] for x in (('refused',), d)] + [('refused',)]
        total_ops = sum(sum(d for d in loops) for loops in case['clients'])
        max_steps = 50 * 14 * max(total_ops, 1) * (3 if case['cache'] == 'fanout' else 1)

        # run_scheduled creates the Sched; the critical section needs it for its yield point
        import vlib.conc as conc_mod

        orig = conc_mod.Sched

        class BoxSched(orig):
            def __init__(self, *a, **k):
                orig.__init__(self, *a, **k)
                sched_box['s'] = self

        conc_mod.Sched = BoxSched
        try:
            def warm(client):
                c = client[1]._cache if client[0] == 'plain' else None
                if isinstance(c, diskcache.Cache):
                    c._sql
                elif c is not None:
                    for shard in c._shards:
                        shard._sql

            calls, sched = run_scheduled(env, progs, case['schedule'], open_clients, do_op, 'C15', max_steps=max_steps, warm=warm)
        finally:
            conc_mod.Sched = orig
        desc = '%s value=%d on %s, mode=%s, clients=%r' % (kind, value, case['cache'], case['mode'], case['clients'])
        if 'bad' in witness:
            raise Violation('C15/mutual-exclusion/%s' % kind.replace('barrier-', ''), '%d holders at once (limit %d) for %s\nwitness: %r' % (witness['max'], limit, desc, witness['bad']))
        for c in calls:
            if c.result[0] == 'exc':
                raise Violation('C15/unexpected-exception/%s' % c.result[1], 'well-formed acquire/release loop raised %s for %s\n%s' % (c.result[1], desc, fmt(calls)))
        if sched.limit_hit:
            raise Violation('C15/liveness/%s' % kind.replace('barrier-', ''), 'contenders did not all finish within %d steps (50x uncontended) for %s; last steps %r' % (max_steps, desc, sched.trace[-10:]))
        waiters = {cl for (_, cl, lab) in sched.trace if lab == 'sleep'}
        return {'nontrivial': len(waiters) >= 1, 'classes': ['kind=' + kind, 'cache=' + case['cache'], 'mode=' + case['mode']]}

    def selftest(self, env):
        io_selftest(env)


class Refusals(SubCheck):
    """Releasing what is not held is refused and changes nothing (sequential, two real threads for RLock)."""

    name = 'refusal_probes'

    def examples(self, tier):
        return 40 if tier == 'quick' else 600

    def strategy(self, tier):
        return st.fixed_dictionaries(
            {
                'kind': st.sampled_from(['rlock-unheld', 'rlock-other-thread', 'rlock-after-balanced', 'sem-full']),
                'depth': st.integers(1, 3),
                'value': st.integers(1, 3),
                'cache': st.sampled_from(['cache', 'fanout']),
            }
        )

    def execute(self, case, env):
        import threading

        import diskcache
        from diskcache import recipes

        get_seams(env)
        path = env.scratch.fresh('ref')
        cache = diskcache.FanoutCache(path, shards=2, timeout=0) if case['cache'] == 'fanout' else diskcache.Cache(path, timeout=0)
        kind, depth, value = case['kind'], case['depth'], case['value']

        def expect_refused(fn, what):
            try:
                fn()
            except AssertionError:
                return
            except Exception as exc:
                raise Violation('C15/refusal/%s' % kind, '%s raised %r instead of AssertionError' % (what, exc))
            raise Violation('C15/refusal/%s' % kind, '%s was accepted' % what)

        try:
            if kind.startswith('rlock'):
                lock = recipes.RLock(cache, 'rk')
                if kind == 'rlock-unheld':
                    expect_refused(lock.release, 'RLock.release() of a lock nobody holds')
                    if cache.get('rk') not in (None,):
                        raise Violation('C15/refusal-changed-state/%s' % kind, 'refused release stored %r' % (cache.get('rk'),))
                elif kind == 'rlock-after-balanced':
                    for _ in range(depth):
                        lock.acquire()
                    for _ in range(depth):
                        lock.release()
                    before = cache.get('rk')
                    expect_refused(lock.release, 'RLock.release() after %d acquire/%d release' % (depth, depth))
                    if cache.get('rk') != before:
                        raise Violation('C15/refusal-changed-state/%s' % kind, 'state %r -> %r' % (before, cache.get('rk')))
                else:
                    for _ in range(depth):
                        lock.acquire()
                    before = cache.get('rk')
                    box = {}

                    def other():
                        try:
                            recipes.RLock(cache, 'rk').release()
                            box['r'] = 'accepted'
                        except AssertionError:
                            box['r'] = 'refused'
                        except Exception as exc:
                            box['r'] = repr(exc)

                    t = threading.Thread(target=other)
                    t.start()
                    t.join()
                    if box.get('r') != 'refused':
                        raise Violation('C15/refusal/%s' % kind, 'release by a thread that does not hold the RLock: %s' % box.get('r'))
                    if cache.get('rk') != before:
                        raise Violation('C15/refusal-changed-state/%s' % kind, 'state %r -> %r' % (before, cache.get('rk')))
                    for _ in range(depth):
                        lock.release()
            else:
                sem = recipes.BoundedSemaphore(cache, 'sk', value=value)
                for _ in range(min(depth, value)):
                    sem.acquire()
                for _ in range(min(depth, value)):
                    sem.release()
                before = cache.get('sk')
                expect_refused(sem.release, 'BoundedSemaphore.release() at full value %d' % value)
                if cache.get('sk') != before:
                    raise Violation('C15/refusal-changed-state/%s' % kind, 'state %r -> %r' % (before, cache.get('sk')))
            return {'nontrivial': True, 'classes': ['kind=' + kind]}
        finally:
            cache.close()
            env.scratch.drop(path)


class ProcessContenders(SubCheck):
    """The same loops with every contender in its own OS process (RLock identity is pid-tid; the lock lives in the directory)."""

    name = 'process_contenders'

    def examples(self, tier):
        return 30 if tier == 'quick' else 1200

    def strategy(self, tier):
        return case_strategy().filter(lambda c: not c['kind'].startswith('barrier')).map(lambda c: dict(c, clients=c['clients'][:3]))

    def execute(self, case, env):
        import diskcache
        from diskcache import recipes

        from .. import procsched

        kind, value, n = case['kind'], case['value'], len(case['clients'])
        limit = value if kind == 'sem' else 1
        witness = {'holders': 0, 'max': 0, 'log': [], 'bad': None}

        def setup(path):
            if case['cache'] == 'fanout':
                return diskcache.FanoutCache(path, shards=2, timeout=0)
            return diskcache.Cache(path, timeout=0)

        def make_client(path, shared, i):
            if case['mode'] == 'shared' and i >= 0:
                c = shared  # the object opened before the fork
            elif case['cache'] == 'fanout':
                c = diskcache.FanoutCache(path, shards=2, timeout=0)
            else:
                c = diskcache.Cache(path, timeout=0)
            for shard in ([c] if isinstance(c, diskcache.Cache) else c._shards):
                shard._sql
            if kind == 'lock':
                return recipes.Lock(c, 'the-lock')
            if kind == 'rlock':
                return recipes.RLock(c, 'the-lock')
            return recipes.BoundedSemaphore(c, 'the-lock', value=value)

        def do_op(lock, op):
            ctl = procsched.CURRENT['ctl']
            depth = op[1]
            try:
                for _ in range(depth):
                    lock.acquire()
                ctl.message(('ENTER',))
                for _ in range(3):
                    ctl.custom_yield('cs:inside')
                ctl.message(('EXIT',))
                for _ in range(depth):
                    lock.release()
                return ('ok', None)
            except Exception as exc:
                return ('exc', type(exc).__name__)

        def on_message(idx, msg):
            if msg[0] == 'ENTER':
                witness['holders'] += 1
                witness['log'].append(('enter', idx, witness['holders']))
                if witness['holders'] > limit and witness['bad'] is None:
                    witness['bad'] = list(witness['log'][-6:])
            elif msg[0] == 'EXIT':
                witness['holders'] -= 1
                witness['log'].append(('exit', idx, witness['holders']))

        progs = [[('loop', d) for d in loops] for loops in case['clients']]
        total_ops = sum(sum(loops) for loops in case['clients'])
        max_steps = 50 * 14 * max(total_ops, 1) * (3 if case['cache'] == 'fanout' else 1)
        calls, run = procsched.run_scheduled_procs(env, progs, case['schedule'], setup, make_client, do_op, 'C15', max_steps=max_steps, on_message=on_message)
        desc = '%s value=%d on %s, processes (%s object), clients=%r' % (kind, value, case['cache'], 'inherited' if case['mode'] == 'shared' else 'own', case['clients'])
        if witness['bad'] is not None:
            raise Violation('C15/mutual-exclusion/%s/processes' % kind, '%d holders at once (limit %d) for %s\nwitness: %r' % (max(w[2] for w in witness['log']), limit, desc, witness['bad']))
        for c in calls:
            if c.result[0] == 'exc':
                raise Violation('C15/unexpected-exception/%s' % c.result[1], 'well-formed acquire/release loop raised %s for %s' % (c.result[1], desc))
        if run.limit_hit:
            raise Violation('C15/liveness/%s/processes' % kind, 'contenders did not all finish within %d steps for %s; last steps %r' % (max_steps, desc, run.trace[-10:]))
        waited = any(lab == 'sleep' for (_, _, lab) in run.trace)
        return {'nontrivial': waited, 'classes': ['kind=' + kind, 'cache=' + case['cache'], 'object=' + ('inherited' if case['mode'] == 'shared' else 'own')]}


SUBCHECKS = [Contenders(), Refusals(), ProcessContenders()]
