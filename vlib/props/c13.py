"""C13 — a sharded cache is observably one cache with a fixed key-to-shard mapping."""

import json
import os
import sqlite3
import subprocess
import sys

from hypothesis import strategies as st

from .. import common
from ..cacheops import DFLT, POLICIES, Runner, nontrivial_history, op_strategy
from ..common import HarnessError, Violation, dec, enc, short
from ..engine import SubCheck
from ..model import CacheModel, ident, strict
from . import c02, c03

LEVEL = 'exploration'
RULE = (
    '(a) C03-style histories (set/add/get variants/[]/in/touch/incr/decr/pop/delete/del/clear/evict/expire/len/iteration/'
    'stats/bulk writes over > 100 rows) against FanoutCache(shards in {1,2,3,8,13}) and the reference dictionary; '
    'aggregates: len/volume/stats are sums, clear/expire/evict return totals, iteration is a permutation of the model keys '
    'that is insertion-ordered within each shard, check() covers every shard exactly once, each shard persists '
    'size_limit = total/shards. (b) batches of generated keys (C02 strategy minus hash-seed-dependent containers) are '
    'routed in this process, in fresh interpreters with PYTHONHASHSEED in {0,1,4242}, by the vendored pinned copy and against '
    'golden/routing.json; a sample is also located physically (which shard directory received the row). (c) pairs of keys '
    'the cache treats as equal must route to one shard for every shard count. non-trivial: (a) >= 2 shards non-empty and '
    'an aggregate op; (d) reset()/reload/attribute reads through two handles per directory, differentially against two handles '
    'on an unsharded Cache and against the truth (last reset wins): step results, what every shard persists, key encoding across handles, eviction after a policy reload; non-trivial = a reset over a copy made stale by the other handle; (b)/(c) batches containing non-ASCII/out-of-int64/float keys or derived pairs; distinct by SHA-1'
)
ASSUMPTIONS = [
    'history alphabets never contain numeric twins (1 and 1.0): that is the recorded known finding, excluded by construction',
    'keys whose pickle depends on the hash seed (sets of >= 2 strings) are outside the routing domain (documented caveat)',
    'the routing reference is the vendored copy of the pinned release in golden/pinned_diskcache',
]

SHARDS = [1, 2, 3, 8, 13]
KEYS = ['a', 'b', 'c', 7, b'a', ('t', 1), 'key4', 'key5']


def pinned():
    g = os.path.join(common.VERIF, 'golden')
    if g not in sys.path:
        sys.path.append(g)
    import pinned_diskcache

    return pinned_diskcache


def oracle_shard(key, shards):
    p = pinned()
    disk = p.Disk('/nonexistent', pickle_protocol=p.core.DEFAULT_SETTINGS['disk_pickle_protocol'])
    return disk.hash(key) % shards


class FanoutRunner(Runner):
    def __init__(self, *a, **k):
        self.shards = k.pop('shards')
        Runner.__init__(self, *a, **k)

    def _cmp_keys(self, op, real, exp):
        if real[0] != 'ok':
            self.fail(op[0] + '/exception', 'op %s raised %s' % (short(op), real[1]))
        got = real[1]
        a = sorted(map(repr, (ident(k) for k in got)))
        b = sorted(map(repr, (ident(k) for k in exp)))
        if a != b:
            self.fail(op[0] + '/permutation', 'op %s: iteration %s is not a permutation of the model keys %s' % (short(op), short(got, 300), short(exp, 300)))
        # insertion order within each shard (shard decided by the pinned routing oracle)
        rev = op[0] == 'reversed'
        order = {ident(k): n for n, k in enumerate(exp)}
        last = {}
        seen_shards = []
        for k in got:
            s = oracle_shard(k, self.shards)
            if not seen_shards or seen_shards[-1] != s:
                if s in seen_shards:
                    self.fail(op[0] + '/shard-revisited', 'op %s: iteration returns to shard %d: %s' % (short(op), s, short(got, 300)))
                seen_shards.append(s)
            n = order[ident(k)]
            if s in last and n < last[s]:
                self.fail(op[0] + '/order-within-shard', 'op %s: keys of shard %d out of insertion order: %s' % (short(op), s, short(got, 300)))
            last[s] = n

    def op_iterkeys(self, op, t0):
        self.trace.pop()

    def op_cull(self, op, t0):
        # the size limit is far away, so cull() removes exactly the expired items of every shard and returns their number
        real = self.call(self.c.cull)
        t1 = self.clock.peek()
        self.expect(op, real, ('ok', self.m.expire(t0, t1)))
        self.classes.add('cull')

    def op_peekitem(self, op, t0):
        self.trace.pop()

    def op_reversed(self, op, t0):
        self._cmp_keys(op, self.call(lambda: list(reversed(self.c))), self.m.keys()[::-1])

    def op_read(self, op, t0):
        # FanoutCache.read has no retry argument
        real = self.call(self.c.read, op[1])
        t1 = self.clock.peek()
        item = self.m.lookup(op[1], t0, t1)
        if real[0] == 'ok':
            real = ('ok', self.materialize(real[1]))
        self.expect(op, real, ('exc', 'KeyError') if item is None else ('ok', item.value))

    def scan(self):
        for op in (('iter',), ('reversed',)):
            self.step(op)
        for item in list(self.m.items.values()):
            self.step(('get', item.key, DFLT, False, True, True))


def shard_settings(path, i):
    con = sqlite3.connect(os.path.join(path, '%03d' % i, 'cache.db'))
    try:
        s = dict(con.execute('SELECT key, value FROM Settings').fetchall())
        ((pc,),) = con.execute('PRAGMA page_count').fetchall()
        ((ps,),) = con.execute('PRAGMA page_size').fetchall()
        ((n,),) = con.execute('SELECT COUNT(*) FROM Cache').fetchall()
    finally:
        con.close()
    return s, pc * ps + s['size'], n


class Histories(SubCheck):
    name = 'histories'

    def examples(self, tier):
        return 50 if tier == 'quick' else 2500

    def strategy(self, tier):
        steps = 50 if tier == 'quick' else 150

        @st.composite
        def case(draw):
            cfg = {
                'eviction_policy': draw(st.sampled_from(POLICIES)),
                'statistics': draw(st.booleans()),
                'tag_index': draw(st.booleans()),
                'disk_min_file_size': draw(st.sampled_from([8, 32768])),
                'cull_limit': draw(st.sampled_from([0, 10])),
            }
            shards = draw(st.sampled_from(SHARDS))
            size_limit = draw(st.sampled_from([None, 2**30, 2**34, 10**9]))
            ops = draw(st.lists(st.one_of(op_strategy(cfg['disk_min_file_size'], keys=KEYS), op_strategy(cfg['disk_min_file_size'], keys=KEYS), st.just(('cull',))), min_size=1, max_size=steps))
            return {'cfg': cfg, 'shards': shards, 'size_limit': size_limit, 'ops': ops}

        return case()

    def execute(self, case, env):
        import diskcache

        clock = c03.get_clock(env)
        path = env.scratch.fresh('fan')
        cfg, shards = case['cfg'], case['shards']
        kw = dict(cfg)
        if case['size_limit'] is not None:
            kw['size_limit'] = case['size_limit']
        fc = diskcache.FanoutCache(path, shards=shards, timeout=0, **kw)
        try:
            total_limit = case['size_limit'] if case['size_limit'] is not None else 2**30
            for i in range(shards):
                s, _, _ = shard_settings(path, i)
                if s['size_limit'] != total_limit / shards:
                    raise Violation('C13/shard-size-limit', 'shard %d persists size_limit %r, total %r / %d shards = %r' % (i, s['size_limit'], total_limit, shards, total_limit / shards))
            model = CacheModel(statistics=cfg['statistics'], policy=cfg['eviction_policy'])
            r = FanoutRunner(fc, model, clock, cfg, pid='C13', shards=shards)
            r.run(case['ops'])
            r.scan()
            r.step(('stats', True, False))
            # aggregates over every shard exactly once
            vols, counts = [], []
            for i in range(shards):
                _, v, n = shard_settings(path, i)
                vols.append(v)
                counts.append(n)
            if fc.volume() != sum(vols):
                raise Violation('C13/volume', 'volume() = %d, sum over shard databases = %d (%r)' % (fc.volume(), sum(vols), vols))
            if len(fc) != sum(counts):
                raise Violation('C13/len', 'len = %d, rows over shard databases = %d' % (len(fc), sum(counts)))
            warns = common.run_check(fc)
            if warns:
                raise Violation('C13/check-consistent', 'check() on an undamaged sharded cache reported %s' % short(warns, 400))
            for i in range(shards):
                with open(os.path.join(path, '%03d' % i, 'stray-%d.txt' % i), 'w') as f:
                    f.write('x')
            warns = common.run_check(fc)
            unknown = [w for w in warns if 'unknown file' in w]
            for i in range(shards):
                n = sum(1 for w in unknown if ('stray-%d.txt' % i) in w)
                if n != 1:
                    raise Violation('C13/check-coverage', 'a stray file in shard %d was reported %d times by check(): %s' % (i, n, short(warns, 400)))
            nonempty = sum(1 for n in counts if n)
            aggregate = any(op[0] in ('clear', 'evict', 'expire', 'cull', 'iter', 'reversed', 'stats', 'len') for op in case['ops'])
            return {'nontrivial': nonempty >= 2 and aggregate, 'classes': ['shards=%d' % shards] + sorted(r.classes)}
        finally:
            fc.close()
            env.scratch.drop(path)

    def selftest(self, env):
        c03.Random().selftest(env)


# ---------------------------------------------------------------------------------------------
# routing

CHILD = r'''
import json, sys
sys.path.insert(0, %(verif)r)
from vlib import common
dc = common.import_repo()
keys = common.dec(json.load(sys.stdin))
disk = dc.Disk('/nonexistent', pickle_protocol=dc.core.DEFAULT_SETTINGS['disk_pickle_protocol'])
json.dump([disk.hash(k) for k in keys], sys.stdout)
'''


def child_hashes(keys, hashseed):
    env = dict(os.environ, PYTHONHASHSEED=str(hashseed), PYTHONDONTWRITEBYTECODE='1')
    p = subprocess.run(
        [sys.executable, '-c', CHILD % {'verif': common.VERIF}],
        input=json.dumps(enc(keys)), capture_output=True, text=True, env=env, timeout=120,
    )
    if p.returncode != 0:
        raise HarnessError('routing child failed: %s' % p.stderr[-800:])
    return json.loads(p.stdout)


def seed_independent(k):
    t = type(k)
    if t in (frozenset, set):
        return len(k) < 2 or all(type(x) is int for x in k)
    if t in (tuple, list):
        return all(seed_independent(x) for x in k)
    return True


class Routing(SubCheck):
    name = 'routing'

    def examples(self, tier):
        return 5 if tier == 'quick' else 60

    def strategy(self, tier):
        return st.fixed_dictionaries({'keys': st.lists(c02.keys, min_size=60, max_size=250), 'physical': st.integers(0, 10**6)})

    def execute(self, case, env):
        import diskcache

        keys = [common.rebuild(k) for k in case['keys'] if seed_independent(k)]
        disk = diskcache.Disk('/nonexistent', pickle_protocol=diskcache.core.DEFAULT_SETTINGS['disk_pickle_protocol'])
        here = [disk.hash(k) for k in keys]
        want = [oracle_shard(k, 2**32 * 13 * 8 * 3) for k in keys]  # modulus larger than any hash: the raw pinned hash
        for k, h, w in zip(keys, here, want):
            if h != w:
                raise Violation('C13/routing/changed-vs-pinned/%s' % type(k).__name__, 'key %s hashes to %d, the pinned release gives %d' % (short(k, 100), h, w))
        for seed in (0, 1, 4242):
            there = child_hashes(keys, seed)
            for k, h, t in zip(keys, here, there):
                if h != t:
                    raise Violation('C13/routing/cross-process/%s' % type(k).__name__, 'key %s hashes to %d here and %d in a fresh interpreter with PYTHONHASHSEED=%d' % (short(k, 100), h, t, seed))
        # physical location of a sample, for one shard count
        shards = SHARDS[1:][case['physical'] % 4]
        path = env.scratch.fresh('route')
        fc = diskcache.FanoutCache(path, shards=shards, timeout=0)
        try:
            sample = keys[case['physical'] % max(len(keys), 1):][:12]
            for k in sample:
                fc.clear()
                fc.set(k, 1)
                holders = [i for i in range(shards) if shard_settings(path, i)[2]]
                if holders != [oracle_shard(k, shards)]:
                    raise Violation('C13/routing/physical/%s' % type(k).__name__, 'key %s was stored in shard(s) %r of %d, the pinned routing says %d' % (short(k, 100), holders, shards, oracle_shard(k, shards)))
                if k not in fc or fc.get(k) != 1:
                    raise Violation('C13/routing/lookup', 'key %s stored but not found' % short(k, 100))
        finally:
            fc.close()
            env.scratch.drop(path)
        special = sum(1 for k in keys if type(k) is float or (type(k) is int and abs(k) >= 2**63) or (type(k) is str and any(ord(c) > 127 for c in k)))
        return {'count': len(keys), 'nontrivial': special > 0, 'classes': ['batch']}

    def describe(self, case):
        return enc({'keys': case['keys'][:12], 'n_keys': len(case['keys'])})


class Golden(SubCheck):
    """The committed golden routing of a fixed key list (recorded from the pinned tree)."""

    name = 'golden_routing'
    exhaustive = True

    def examples(self, tier):
        return 0

    def enumerate(self, tier):
        yield {'file': 'golden/routing.json'}

    def execute(self, case, env):
        import diskcache

        body = json.load(open(os.path.join(common.VERIF, case['file'])))
        keys = dec(body['keys'])
        disk = diskcache.Disk('/nonexistent', pickle_protocol=body['pickle_protocol'])
        for k, h in zip(keys, body['hashes']):
            got = disk.hash(k)
            if got != h:
                raise Violation('C13/routing/changed-vs-golden/%s' % type(k).__name__, 'key %s hashes to %d, golden/routing.json records %d' % (short(k, 100), got, h))
        return {'count': len(keys), 'nontrivial_keys': ['golden/%d' % i for i in range(len(keys))], 'classes': ['golden']}


class EqualPairs(SubCheck):
    name = 'equal_pairs'

    def examples(self, tier):
        return 300 if tier == 'quick' else 8000

    def strategy(self, tier):
        @st.composite
        def case(draw):
            k1 = draw(c02.keys)
            how = draw(st.sampled_from(['same', 'numeric-twin', 'neg-zero', 'numeric-twin', 'same']))
            k2 = c02.derive(k1, how, 5)
            if k2 is None:
                how = 'same'
                k2 = k1
            return {'k1': k1, 'k2': k2, 'how': how}

        return case()

    def execute(self, case, env):
        import diskcache

        k1, k2 = common.rebuild(case['k1']), common.rebuild(case['k2'])
        if not seed_independent(k1) or ident(k1) != ident(k2):
            return {'nontrivial': False, 'classes': ['skipped']}
        disk = diskcache.Disk('/nonexistent', pickle_protocol=diskcache.core.DEFAULT_SETTINGS['disk_pickle_protocol'])
        h1, h2 = disk.hash(k1), disk.hash(k2)
        for n in SHARDS:
            if h1 % n != h2 % n:
                cls = 'numeric-twin' if (type(k1) is not type(k2)) or (type(k1) is float and k1 == 0) else type(k1).__name__
                path = env.scratch.fresh('tw')
                fc = diskcache.FanoutCache(path, shards=n, timeout=0)
                try:
                    fc[k1] = 'v'
                    got = fc.get(k2, 'MISSING')
                finally:
                    fc.close()
                    env.scratch.drop(path)
                raise Violation(
                    'C13/equal-keys-different-shard/%s' % cls,
                    'keys %r (%s) and %r (%s) are one key for Cache but route to shards %d and %d of %d; f[k1] = v; f.get(k2) -> %r'
                    % (k1, type(k1).__name__, k2, type(k2).__name__, h1 % n, h2 % n, n, got),
                )
        return {'nontrivial': case['how'] != 'same' or type(k1) not in (str, bytes), 'classes': ['how=' + case['how']]}


class JSONDiskRouting(SubCheck):
    """With JSONDisk the serialization defines key equality: keys with identical JSON are one key and must live in one
    shard, however their Python objects are built (shared versus distinct sub-objects, tuple versus list)."""

    name = 'jsondisk_routing'

    def examples(self, tier):
        return 60 if tier == 'quick' else 2000

    def strategy(self, tier):
        atom = st.one_of(st.text(min_size=1, max_size=6), st.integers(-5, 5), st.none(), st.booleans())
        return st.fixed_dictionaries({'items': st.lists(atom, min_size=1, max_size=4), 'dup': st.integers(0, 3), 'shards': st.sampled_from([2, 3, 8, 13]), 'variant': st.sampled_from(['distinct-objects', 'tuple', 'same'])})

    def execute(self, case, env):
        import diskcache

        items = list(case['items'])
        shared = items[case['dup'] % len(items)]
        k1 = items + [shared]  # the same object twice
        if case['variant'] == 'distinct-objects':
            k2 = common.rebuild(k1)  # equal, but every sub-object is distinct
        elif case['variant'] == 'tuple':
            k2 = tuple(common.rebuild(k1))
        else:
            k2 = k1
        if json.dumps(k1) != json.dumps(k2):
            return {'nontrivial': False, 'classes': ['skipped']}
        path = env.scratch.fresh('jr')
        fc = diskcache.FanoutCache(path, shards=case['shards'], timeout=0, disk=diskcache.JSONDisk)
        try:
            fc[k1] = 'v1'
            got = fc.get(k2, 'MISSING')
            fc[k2] = 'v2'
            n = len(fc)
            back = fc.get(k1, 'MISSING')
            if got != 'v1' or n != 1 or back != 'v2':
                raise Violation(
                    'C13/jsondisk-equal-keys-different-shard/%s' % case['variant'],
                    'FanoutCache(JSONDisk, shards=%d): keys %r and %r have the same JSON; f[k1]=v1; f.get(k2) -> %r; f[k2]=v2; len -> %d; f.get(k1) -> %r'
                    % (case['shards'], k1, k2, got, n, back),
                )
            return {'nontrivial': case['variant'] != 'same', 'classes': ['variant=' + case['variant']]}
        finally:
            fc.close()
            env.scratch.drop(path)


class AggregatesUnderContention(SubCheck):
    """clear/evict/expire/cull totals when shards time out repeatedly in the middle (another writer takes and gives back
    the lock): the total must equal that of an undisturbed twin and cover every shard exactly once."""

    name = 'aggregate_totals_under_contention'
    exhaustive = True

    def examples(self, tier):
        return 0

    def enumerate(self, tier):
        for name in ('clear', 'evict', 'expire', 'cull'):
            for val in ('inline', 'file'):
                yield {'cell': ('fanout', 'loop:' + name, ('flap',), val, True, 'fast')}

    def execute(self, case, env):
        from . import c14

        cell = tuple(tuple(x) if isinstance(x, list) else x for x in case['cell'])
        try:
            return c14.execute_cell(env, cell, {})
        except Violation as v:
            raise Violation('C13/aggregate-total/' + v.signature.split('/', 1)[1], v.detail)


class SettingsTwoHandles(SubCheck):
    """reset() through two handles on one directory, differentially against two handles on an unsharded Cache: every step
    returns what the unsharded cache returns, and afterwards every shard's Settings table holds what the unsharded one holds
    (a handle's in-memory copy may be stale in both; what is persisted may not differ)."""

    name = 'settings_two_handles'
    VALUES = {
        'cull_limit': [0, 3, 10],
        'statistics': [0, 1],
        'disk_min_file_size': [8, 100, 32768],
        'eviction_policy': ['least-recently-stored', 'least-recently-used', 'none'],
        'disk_pickle_protocol': [2, 4, 5],
    }

    def examples(self, tier):
        return 25 if tier == 'quick' else 1500

    def strategy(self, tier):
        key = st.sampled_from(sorted(self.VALUES))
        h = st.integers(0, 1)
        step = st.one_of(
            key.flatmap(lambda k: st.tuples(st.just('reset'), h, st.just(k), st.sampled_from(self.VALUES[k]))),
            key.flatmap(lambda k: st.tuples(st.just('reset'), h, st.just(k), st.sampled_from(self.VALUES[k]))),
            st.tuples(st.just('reload'), h, key),
            st.tuples(st.just('attr'), h, key),
            st.tuples(st.just('reopen'), h),
        )
        return st.fixed_dictionaries({'shards': st.sampled_from(SHARDS), 'steps': st.lists(step, min_size=2, max_size=12)})

    def execute(self, case, env):
        import diskcache

        shards = case['shards']
        pf, pc = env.scratch.fresh('sf'), env.scratch.fresh('sc')
        fan = [diskcache.FanoutCache(pf, shards=shards, timeout=0), diskcache.FanoutCache(pf, shards=shards, timeout=0)]
        ref = [diskcache.Cache(pc, timeout=0), diskcache.Cache(pc, timeout=0)]
        last_writer = {}
        stale = False
        # what the Settings table must hold: the creation defaults, then whatever was reset last through any handle
        truth = {k: getattr(ref[0], k) for k in self.VALUES}
        try:
            for step in case['steps']:
                name, h = step[0], step[1]
                if name == 'reopen':
                    fan[h].close()
                    ref[h].close()
                    fan[h] = diskcache.FanoutCache(pf, shards=shards, timeout=0)
                    ref[h] = diskcache.Cache(pc, timeout=0)
                    continue
                k = step[2]
                if name == 'reset':
                    got, want = fan[h].reset(k, step[3]), ref[h].reset(k, step[3])
                    if k in last_writer and last_writer[k] != h:
                        stale = True
                    last_writer[k] = h
                    truth[k] = step[3]
                    if want != step[3]:
                        raise Violation('C13/settings/reset-unsharded', 'step %r: Cache.reset returned %r' % (step, want))
                elif name == 'reload':
                    got, want = fan[h].reset(k), ref[h].reset(k)
                    if want != truth[k]:
                        raise Violation('C13/settings/reload-unsharded', 'step %r: reloading through the unsharded cache gives %r, last reset (by any handle) was %r\nsteps %s' % (step, want, truth[k], short(case['steps'], 600)))
                else:
                    got, want = getattr(fan[h], k), getattr(ref[h], k)
                if got != want:
                    raise Violation('C13/settings/%s' % name, 'step %r: FanoutCache gives %r, the unsharded cache %r\nsteps %s' % (step, got, want, short(case['steps'], 600)))
            con = sqlite3.connect(os.path.join(pc, 'cache.db'))
            want = dict(con.execute('SELECT key, value FROM Settings').fetchall())
            con.close()
            for k in self.VALUES:
                if want[k] != truth[k]:
                    raise Violation('C13/settings/persisted-unsharded', 'after %s: the unsharded cache persists %s = %r, last reset was %r' % (short(case['steps'], 600), k, want[k], truth[k]))
            for i in range(shards):
                have, _, _ = shard_settings(pf, i)
                for k in self.VALUES:
                    if have[k] != want[k]:
                        raise Violation(
                            'C13/settings/persisted',
                            'after %s: shard %d persists %s = %r, the unsharded cache %r' % (short(case['steps'], 600), i, k, have[k], want[k]),
                        )
            # the settings are not only numbers in a table: (1) a structured key stored through a handle that lived through the
            # resets (the one that set the pickle protocol last) is found by a handle opened afterwards (both serialise keys the same way); (2) a handle that reloads the
            # eviction policy evicts by it (under 'none' nothing is ever evicted, otherwise a tiny size limit makes writes evict)
            for kind, handles, opener in (('FanoutCache', fan, lambda: diskcache.FanoutCache(pf, shards=shards, timeout=0)), ('Cache', ref, lambda: diskcache.Cache(pc, timeout=0))):
                # (through the handle that set the pickle protocol last: the others legitimately still encode keys the old way -
                # reloading a disk_ setting does not reach the Disk object, in the unsharded cache either; outside the properties)
                handles[last_writer.get('disk_pickle_protocol', 0)].set(('t', 1), 'found')
                fresh = opener()
                try:
                    if fresh.get(('t', 1)) != 'found':
                        raise Violation('C13/settings/key-identity-across-handles/%s' % kind, 'after %s: %s: a tuple key stored through an older handle is missing through a handle opened afterwards' % (short(case['steps'], 600), kind))
                finally:
                    fresh.close()
                h = handles[1]
                h.reset('eviction_policy')
                h.reset('cull_limit', 10)
                h.reset('size_limit', 1)
                for i in range(3):
                    h.set('probe%d' % i, i)
                kept = sum(('probe%d' % i) in h for i in range(3))
                if (kept == 3) != (truth['eviction_policy'] == 'none'):
                    raise Violation(
                        'C13/settings/policy-behaviour/%s' % kind,
                        'after %s and a reload of eviction_policy (%r): %s kept %d of 3 items written over a 1-byte size limit' % (short(case['steps'], 600), truth['eviction_policy'], kind, kept),
                    )
            return {'nontrivial': stale, 'classes': ['shards=%d' % shards] + (['reset-over-stale-copy'] if stale else [])}
        finally:
            for c in fan + ref:
                c.close()
            env.scratch.drop(pf)
            env.scratch.drop(pc)


SUBCHECKS = [Histories(), Routing(), Golden(), EqualPairs(), AggregatesUnderContention(), JSONDiskRouting(), SettingsTwoHandles()]
