"""C10 — push/pull/peek form exactly-once FIFO queues per prefix."""

import collections

from hypothesis import strategies as st

from ..common import HarnessError, Violation, short
from ..conc import fmt, io_selftest, mark_interleaved, run_scheduled
from ..engine import SubCheck
from ..model import same
from ..sched import linearize
from . import c03

LEVEL = 'exploration'
RULE = (
    'sequential: generated sequences of push/pull/peek on both sides over prefixes {None, a, b, a-5, a-, ab, "", '
    'a-500000000000000, q5, w-49, 2025-05 and prefixes with format metacharacters 100%, r%%, p%s, {0}, a{} with expiring and file-backed items, mixed with ordinary keys outside every queue key range '
    '(negative ints, ints >= 10**15, strings no generated prefix range contains, bytes, tuples), through Cache and '
    'Index.push/pull; oracle = one collections.deque per prefix plus a dict: the key returned by push addresses the '
    'item, peek equals the next pull of that side and removes nothing, queues never see each other\'s or ordinary items, '
    'expired heads are skipped. concurrent: 2-3 producers/consumers on one or two prefixes under generated schedules; '
    'oracle = linearizability against the per-prefix deque model (exactly-once delivery, per-producer order). '
    'non-trivial = >= 2 prefixes one of which extends the other, or both sides used, or a pull overlapping a push/pull '
    'of the same queue with interleaved statements; distinct by SHA-1 of the case'
)
ASSUMPTIONS = [
    'cull_limit = 0 in the sequential part, so that only pull/peek remove expired items (lazy culling is C04)',
    'ordinary keys that fall lexicographically inside a queue key range are outside the generated domain',
]

PREFIXES = [None, 'a', 'b', 'a-5', 'a-', 'ab', '', 'a-500000000000000', 'q5', 'w-49', '2025-05', '100%', 'r%%', 'p%s', '{0}', 'a{', 'caf\u00e9 %d']
ORDINARY = [-5, 10**15, 10**15 + 7, 'zzz', 'b0', b'a', ('a', 1), 'a', 'ab', 0, 999999999999999]
VALS = [1, 'v', ('B', 3), ('B', 4), None]
MISS = 'EMPTY'


def mkv(v):
    if type(v) is tuple and len(v) == 2 and v[0] == 'B':
        return bytes([v[1]]) * 40
    return v


def extends(p, q):
    """Does a key of queue q fall lexicographically into the key range of queue p?"""
    if p is None or q is None or p == q:
        return False
    k = q + '-500000000000000'
    return p + '-000000000000000' < k < p + '-999999999999999'


class QItem:
    __slots__ = ('key', 'value', 'lo', 'hi')

    def __init__(self, key, value, lo, hi):
        self.key, self.value, self.lo, self.hi = key, value, lo, hi


def live(it, t0, t1):
    if it.lo is None or it.lo > t1:
        return True
    if it.hi <= t0:
        return False
    raise HarnessError('expiry instant inside a call interval')


def num_of(key, prefix):
    return key if prefix is None else int(key[key.rfind('-') + 1:])


class _Rollback(Exception):
    pass


def seq_ops(index_only, prefixes=PREFIXES):
    p = st.sampled_from(prefixes)
    side = st.sampled_from(['front', 'back'])
    v = st.sampled_from(VALS)
    ttl = st.sampled_from([None, None, None, 5, 0.125])
    base = [
        st.tuples(st.just('push'), v, p, st.sampled_from(['back', 'back', 'front']), st.none() if index_only else ttl),
        st.tuples(st.just('push'), v, p, st.sampled_from(['back', 'back', 'front']), st.none() if index_only else ttl),
        st.tuples(st.just('push'), v, p, st.sampled_from(['back', 'back', 'front']), st.none() if index_only else ttl),
        st.tuples(st.just('pull'), p, side),
        st.tuples(st.just('pull'), p, side),
        st.tuples(st.just('abortpull'), p, side),  # a transaction block pulls an item and rolls back: the item is still queued
        st.tuples(st.just('oset'), st.sampled_from(ORDINARY), v),
        st.tuples(st.just('oget'), st.sampled_from(ORDINARY)),
        st.tuples(st.just('odel'), st.sampled_from(ORDINARY)),
        st.tuples(st.just('getkey'), st.integers(0, 5)),
    ]
    if not index_only:
        base += [
            st.tuples(st.just('peek'), p, side),
            st.tuples(st.just('peek'), p, side),
            st.tuples(st.just('advance'), st.sampled_from([1, 10])),
        ]
    return st.one_of(*base)


class Sequential(SubCheck):
    name = 'sequential'

    def examples(self, tier):
        return 200 if tier == 'quick' else 5000

    def strategy(self, tier):
        @st.composite
        def case(draw):
            origin = draw(st.sampled_from(['cache', 'cache', 'index']))
            # every case works on a few queues only (drawn from the whole prefix alphabet), so that each of them sees a real
            # history: several pushes on both sides, expiring items, pulls and peeks from both ends
            pool = draw(st.lists(st.sampled_from(PREFIXES), min_size=1, max_size=4, unique=True))
            ops = draw(st.lists(seq_ops(origin == 'index', pool), min_size=2, max_size=40 if tier == 'quick' else 100))
            return {'origin': origin, 'ops': ops}

        return case()

    def execute(self, case, env):
        import diskcache

        clock = c03.get_clock(env)
        path = env.scratch.fresh('q')
        cache = diskcache.Cache(path, eviction_policy='none', disk_min_file_size=8, cull_limit=0)
        obj = diskcache.Index.fromcache(cache) if case['origin'] == 'index' else cache
        queues = collections.defaultdict(list)  # prefix -> [QItem] front..back
        ordinary = {}
        pushed_keys = []
        used_prefixes = set()
        sides = set()
        trace = []

        def fail(what, detail, op):
            cls = 'other'
            pfx = op[2] if op[0] == 'push' else (op[1] if op[0] in ('pull', 'peek') else None)
            if op[0] in ('push', 'pull', 'peek'):
                others = [q for q in queues if queues[q] and q != pfx]
                if any(extends(pfx, q) or extends(q, pfx) for q in others):
                    cls = 'prefix-extends-prefix'
            raise Violation(
                'C10/%s/%s' % (what, cls),
                '%s\norigin=%s\nqueues: %s\nhistory tail:\n  %s'
                % (detail, case['origin'], {p: [i.key for i in q] for p, q in queues.items() if q}, '\n  '.join(short(o, 150) for o in trace[-10:])),
            )

        try:
            for op in case['ops']:
                trace.append(op)
                name = op[0]
                if name == 'advance':
                    clock.advance(op[1])
                    continue
                t0 = clock.peek()
                if name == 'push':
                    _, v, prefix, side, ttl = op
                    value = mkv(v)
                    try:
                        if case['origin'] == 'index':
                            key = obj.push(value, prefix, side)
                        else:
                            key = obj.push(value, prefix=prefix, side=side, expire=ttl)
                    except Exception as exc:  # a queue operation with valid arguments never raises
                        fail('operation-raised/%s' % type(exc).__name__, 'push(prefix=%r, side=%s) raised %r' % (prefix, side, exc), op)
                    t1 = clock.peek()
                    q = queues[prefix]
                    if q:
                        edge = q[-1] if side == 'back' else q[0]
                        num = num_of(edge.key, prefix) + (1 if side == 'back' else -1)
                    else:
                        num = 500000000000000
                    want = num if prefix is None else '%s-%015d' % (prefix, num)
                    if not same(key, want):
                        fail('push-key', 'push(prefix=%r, side=%s) returned key %r, this queue alone gives %r' % (prefix, side, key, want), op)
                    item = QItem(key, value, None if ttl is None else t0 + ttl, None if ttl is None else t1 + ttl)
                    if side == 'back':
                        q.append(item)
                    else:
                        q.insert(0, item)
                    pushed_keys.append((prefix, item))
                    used_prefixes.add(prefix)
                    sides.add(side)
                elif name in ('pull', 'peek'):
                    _, prefix, side = op
                    try:
                        if case['origin'] == 'index':
                            got = obj.pull(prefix, (None, MISS), side)
                        else:
                            got = getattr(obj, name)(prefix=prefix, default=(None, MISS), side=side)
                    except Exception as exc:
                        fail('operation-raised/%s' % type(exc).__name__, '%s(prefix=%r, side=%s) raised %r' % (name, prefix, side, exc), op)
                    t1 = clock.peek()
                    if t1 - t0 > 10000 * 2.0 ** -20:
                        # every reading of the virtual clock advances it by 2**-20 s: the call looked at the clock more than ten
                        # thousand times (one reading per skipped expired item is what the code needs; queues here hold < 50 items)
                        fail('no-progress', '%s(prefix=%r, side=%s) read the clock %d times before it returned: it was spinning' % (name, prefix, side, int((t1 - t0) * 2 ** 20)), op)
                    q = queues[prefix]
                    exp = None
                    while q:
                        head = q[0] if side == 'front' else q[-1]
                        if live(head, t0, t1):
                            exp = head
                            break
                        q.remove(head)  # expired heads are skipped (and removed)
                    sides.add(side)
                    if exp is None:
                        if not same(got, (None, MISS)):
                            fail(name + '-foreign-item', '%s(prefix=%r, side=%s) returned %s but this queue is empty' % (name, prefix, side, short(got)), op)
                    else:
                        if not same(got, (exp.key, exp.value)):
                            fail(name + '-order', '%s(prefix=%r, side=%s) returned %s, expected %s' % (name, prefix, side, short(got), short((exp.key, exp.value))), op)
                        if name == 'pull':
                            q.remove(exp)
                elif name == 'abortpull':
                    try:
                        with obj.transact():
                            if case['origin'] == 'index':
                                obj.pull(op[1], (None, MISS), op[2])
                            else:
                                obj.pull(prefix=op[1], default=(None, MISS), side=op[2])
                            raise _Rollback()
                    except _Rollback:
                        pass
                elif name == 'oset':
                    obj[op[1]] = mkv(op[2])
                    ordinary[op[1]] = mkv(op[2])
                elif name == 'oget':
                    got = obj.get(op[1], MISS)
                    want = ordinary.get(op[1], MISS)
                    if not same(got, want):
                        fail('ordinary-key', 'ordinary key %r: get returned %s, expected %s' % (op[1], short(got), short(want)), op)
                elif name == 'odel':
                    if op[1] in ordinary:
                        del obj[op[1]]
                        del ordinary[op[1]]
                    else:
                        # refused (KeyError): a transaction that rolls back, between the queue operations
                        try:
                            del obj[op[1]]
                        except KeyError:
                            pass
                        else:
                            fail('ordinary-key', 'deleting the absent ordinary key %r did not raise KeyError' % (op[1],), op)
                elif name == 'getkey':
                    # the key returned by push identifies that item
                    if pushed_keys:
                        prefix, item = pushed_keys[op[1] % len(pushed_keys)]
                        present = item in queues[prefix] and live(item, t0, t0)
                        got = cache.get(item.key, MISS)
                        if present and not same(got, item.value):
                            fail('key-does-not-address-item', 'cache[%r] is %s, pushed %s' % (item.key, short(got), short(item.value)), op)
                # global accounting: nothing lost, nothing duplicated
                n_model = sum(len(q) for q in queues.values()) + len(ordinary)
                if len(cache) != n_model:
                    fail('count', 'after %s: len(cache)=%d, model holds %d items' % (short(op), len(cache), n_model), op)
            ext = any(extends(p, q) for p in used_prefixes for q in used_prefixes)
            nontrivial = ext or len(sides) == 2
            classes = ['origin=' + case['origin']]
            if ext:
                classes.append('prefix-extends-prefix')
            return {'nontrivial': nontrivial, 'classes': classes}
        finally:
            cache.close()
            env.scratch.drop(path)


# ---------------------------------------------------------------------------------------------
# concurrent

CPREFIXES = [None, 'q']


def conc_op(client, idx):
    v = st.one_of(st.just(('B', 16 * client + idx + 1)), st.just(100 * client + idx))
    p = st.sampled_from(CPREFIXES)
    return st.one_of(
        st.tuples(st.just('push'), v, p, st.sampled_from(['back', 'back', 'front'])),
        st.tuples(st.just('push'), v, p, st.sampled_from(['back', 'back', 'front'])),
        st.tuples(st.just('pull'), p, st.sampled_from(['front', 'front', 'back'])),
        st.tuples(st.just('pull'), p, st.sampled_from(['front', 'front', 'back'])),
        st.tuples(st.just('peek'), p, st.sampled_from(['front', 'back'])),
    )


@st.composite
def conc_case(draw):
    n = draw(st.integers(2, 3))
    progs = [[draw(conc_op(c, i)) for i in range(draw(st.integers(1, 4)))] for c in range(n)]
    init = draw(st.lists(st.tuples(st.sampled_from([7, ('B', 250), ('B', 251)]), st.sampled_from(CPREFIXES)), max_size=3))
    schedule = draw(st.lists(st.tuples(st.integers(0, n - 1), st.one_of(st.integers(1, 8), st.sampled_from([12, 16, 24, 40]))), max_size=14))
    if draw(st.integers(0, 3)) == 0:
        # built on purpose: the item a client looks at (peek or pull) is the newest row and file-backed; before the client reads
        # its value file another client takes that item and pushes a new one, which SQLite gives the same rowid
        q = draw(st.sampled_from(CPREFIXES))
        first = draw(st.sampled_from([('peek', q, 'front'), ('peek', q, 'back'), ('pull', q, 'front')]))
        second = [('pull', q, draw(st.sampled_from(['front', 'back']))), ('push', ('B', 17), q, draw(st.sampled_from(['back', 'front'])))]
        progs = [[first], second] + progs[2:]
        init = [(draw(st.sampled_from([('B', 250), ('B', 251)])), q)]
        schedule = [(0, draw(st.sampled_from([1, 2, 3, 3, 4, 4, 5, 6]))), (1, draw(st.sampled_from([8, 12, 14, 16, 18, 20, 30]))), (0, draw(st.integers(1, 8)))] + schedule[:8]
    return {'init': init, 'progs': progs, 'schedule': schedule, 'one_prefix': draw(st.booleans())}


def unmkv(v):
    if type(v) is bytes:
        if v and v == bytes([v[0]]) * len(v) and len(v) == 40:
            return ('B', v[0])
        return ('MIXED', v[:8].hex(), len(v))
    return v


def do_conc(cache, op):
    name = op[0]
    try:
        if name == 'push':
            return ('ok', cache.push(mkv(op[1]), prefix=op[2], side=op[3], retry=True))
        if name in ('pull', 'peek'):
            k, v = getattr(cache, name)(prefix=op[1], default=(None, MISS), side=op[2], retry=True)
            return ('ok', (k, unmkv(v)))
    except Exception as exc:
        return ('exc', type(exc).__name__)
    raise HarnessError('unknown op %r' % (op,))


def conc_apply(state, call):
    """state: tuple of (prefix, tuple of (key, value))."""
    d = {p: list(items) for p, items in state}
    op, res = call.op, call.result
    name = op[0]
    if name == 'push':
        _, v, prefix, side = op
        q = d.setdefault(prefix, [])
        if q:
            edge = q[-1] if side == 'back' else q[0]
            num = num_of(edge[0], prefix) + (1 if side == 'back' else -1)
        else:
            num = 500000000000000
        key = num if prefix is None else '%s-%015d' % (prefix, num)
        if side == 'back':
            q.append((key, v))
        else:
            q.insert(0, (key, v))
        exp = ('ok', key)
    else:
        _, prefix, side = op
        q = d.setdefault(prefix, [])
        if not q:
            exp = ('ok', (None, MISS))
        else:
            head = q[0] if side == 'front' else q[-1]
            exp = ('ok', head)
            if name == 'pull':
                q.remove(head)
    frozen = tuple(sorted(((p, tuple(items)) for p, items in d.items() if items), key=lambda x: repr(x[0])))
    return frozen, exp == res


class Concurrent(SubCheck):
    name = 'concurrent'

    def examples(self, tier):
        return 250 if tier == 'quick' else 8000

    def strategy(self, tier):
        return conc_case()

    def execute(self, case, env):
        import diskcache

        n = len(case['progs'])
        progs = case['progs']
        init = case['init']
        if case['one_prefix']:
            progs = [[(op[0], op[1], 'q', op[3]) if op[0] == 'push' else (op[0], 'q', op[2]) for op in prog] for prog in progs]
            init = [(v, 'q') for v, _ in init]
        init_calls = []

        def open_clients(path):
            caches = [diskcache.Cache(path, timeout=0, eviction_policy='none', disk_min_file_size=8) for _ in range(n)]
            for v, p in init:
                init_calls.append((p, caches[0].push(mkv(v), prefix=p), v))
            return caches, caches

        finals = [('pull', pfx, 'front') for pfx in (['q'] if case['one_prefix'] else CPREFIXES) for _ in range(6)]
        calls, sched = run_scheduled(env, progs, case['schedule'], open_clients, do_conc, 'C10', warm=lambda c: c._sql, final_ops=finals)
        if sched.limit_hit:
            return {'nontrivial': False, 'classes': ['step-limit']}
        mark_interleaved(calls, sched.trace)
        for c in calls:
            if c.result[0] == 'exc':
                raise Violation('C10/unexpected-exception/%s' % c.result[1], 'call %r\n%s' % (c, fmt(calls)))
        d = {}
        for p, key, v in init_calls:
            d.setdefault(p, []).append((key, v))
        init_state = tuple(sorted(((p, tuple(items)) for p, items in d.items()), key=lambda x: repr(x[0])))
        witness = linearize(calls, init_state, conc_apply, lambda s: s)
        if witness is None:
            raise Violation('C10/linearizability', 'no sequential order explains these results (initial %r):\n%s' % (init_state, fmt(calls)))
        nontrivial = any(a.interleaved for a in calls if a.op[0] == 'pull') or any(a.interleaved for a in calls if a.op[0] == 'push')
        return {'nontrivial': nontrivial, 'classes': ['clients=%d' % n, 'one-prefix' if case['one_prefix'] else 'two-prefixes']}

    def selftest(self, env):
        io_selftest(env)


class ProcessConcurrent(Concurrent):
    """Producers and consumers as separate OS processes (the free-running tier of the plan, made schedulable)."""

    name = 'concurrent_processes'

    def examples(self, tier):
        return 30 if tier == 'quick' else 1500

    def execute(self, case, env):
        import diskcache

        from ..procsched import run_scheduled_procs

        progs = case['progs']
        init = case['init']
        if case['one_prefix']:
            progs = [[(op[0], op[1], 'q', op[3]) if op[0] == 'push' else (op[0], 'q', op[2]) for op in prog] for prog in progs]
            init = [(v, 'q') for v, _ in init]
        init_calls = []

        def setup(path):
            base = diskcache.Cache(path, timeout=0, eviction_policy='none', disk_min_file_size=8)
            for v, p in init:
                init_calls.append((p, base.push(mkv(v), prefix=p), v))
            return base

        def make_client(path, shared, i):
            c = diskcache.Cache(path, timeout=0)
            c._sql
            return c

        finals = [('pull', pfx, 'front') for pfx in (['q'] if case['one_prefix'] else CPREFIXES) for _ in range(6)]
        calls, run = run_scheduled_procs(env, progs, case['schedule'], setup, make_client, do_conc, 'C10', final_ops=finals)
        if run.limit_hit:
            return {'nontrivial': False, 'classes': ['step-limit']}
        mark_interleaved(calls, run.trace)
        for c in calls:
            if c.result[0] == 'exc':
                raise Violation('C10/unexpected-exception/%s' % c.result[1], 'call %r\n%s' % (c, fmt(calls)))
        d = {}
        for p, key, v in init_calls:
            d.setdefault(p, []).append((key, v))
        init_state = tuple(sorted(((p, tuple(items)) for p, items in d.items()), key=lambda x: repr(x[0])))
        if linearize(calls, init_state, conc_apply, lambda s: s) is None:
            raise Violation('C10/linearizability/processes', 'no sequential order explains these results (initial %r):\n%s' % (init_state, fmt(calls)))
        nontrivial = any(a.interleaved for a in calls if a.op[0] in ('pull', 'push'))
        return {'nontrivial': nontrivial, 'classes': ['processes=%d' % len(progs)]}


SUBCHECKS = [Sequential(), Concurrent(), ProcessConcurrent()]
