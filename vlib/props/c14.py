"""C14 — lock timeouts fail cleanly: Cache raises, sharded caches report, nothing changes."""

import itertools
import os
import sqlite3

from hypothesis import strategies as st

from ..audit import Snapshot
from ..common import HarnessError, Violation, short
from ..conc import get_seams
from ..engine import SubCheck
from ..model import same, strict
from ..seams import Controller

LEVEL = 'fault_enumeration'
RULE = (
    'matrix {every public data operation of Cache, FanoutCache, DjangoCache, Deque, Index} x {write lock held by a foreign '
    'SQLite connection before the call; taken at the call\'s first BEGIN IMMEDIATE, i.e. after the value file was written; '
    'taken at the 2nd page of a bulk removal; held and released at the k-th BEGIN attempt, k in 1..5} x {inline, file-backed} x '
    '{retry off/on} x {lock-free reads; statistics or LRU on}; the matrix is enumerated completely with a fixed pre-state '
    '(exhaustive part) and sampled with generated pre-states and arguments. Oracle: Cache without retry raises Timeout '
    '(bulk removals Timeout(n) with exactly n items gone, n a multiple of the 100-row page) and the audit snapshot (rows, '
    'counters, files) is unchanged; with the lock released at the k-th attempt a retrying call returns and its result and '
    'final contents equal those of an unfaulted twin; FanoutCache/DjangoCache never raise Timeout, return False/None/default '
    'and change nothing; reads that need no write answer correctly while the lock is held. non-trivial = the lock was '
    'actually contended (>= 1 failed BEGIN observed); distinct by (class, method, injector, value kind, flags, pre-state hash)'
)
ASSUMPTIONS = [
    'the foreign lock is a raw sqlite3 connection driven from the SQL seam; timeout=0; no threads, no wall clock',
    'operations whose contract is "loop until done" (FanoutCache bulk removals, everything with retry=True) are only combined with the released-at-k injector',
    'stats()/reset() (60 s statement retry loop) are not part of the matrix',
]

FILE_V = b'F' * 200
INLINE_V = 'inline'
DFLT = 'DFLT'


class Abort(BaseException):
    pass


class LockInjector(Controller):
    def __init__(self, dbs, mode, k=0):
        self.cons = [sqlite3.connect(db, timeout=0, isolation_level=None) for db in dbs]
        self.mode = mode
        self.k = k
        self.begins = 0
        self.failed = 0
        self.held = False
        self.active = False

    def hold(self):
        if not self.held:
            for c in self.cons:
                c.execute('BEGIN IMMEDIATE')
            self.held = True

    def release(self):
        if self.held:
            for c in self.cons:
                c.execute('ROLLBACK')
            self.held = False

    def close(self):
        self.release()
        for c in self.cons:
            c.close()

    def event(self, kind, label, con=None):
        if not self.active:
            return
        if kind == 'sql' and label.lstrip().upper().startswith('BEGIN'):
            self.begins += 1
            if self.begins > 3000:
                raise Abort()
            if self.mode == 'at-begin' and self.begins == 1:
                self.hold()
            elif self.mode == 'page2' and self.begins == 2:
                self.hold()
            elif self.mode == 'release' and self.begins == self.k:
                self.release()
            elif self.mode == 'flap':
                # the lock is taken and given back repeatedly while a looping call is under way
                if self.begins % 4 == 2:
                    self.hold()
                elif self.begins % 4 == 0:
                    self.release()
        elif kind == 'sql-error' and label.lstrip().upper().startswith('BEGIN'):
            self.failed += 1


# ---------------------------------------------------------------------------------------------
# operation tables: name -> (function(obj, value, retry), kind)
# kinds: 'write' single-key write; 'bulk' paged removal; 'txnread' read that writes under statistics/LRU; 'read' lock-free


def cache_ops():
    return {
        'set': (lambda c, v, r: c.set('k1', v, retry=r), 'write'),
        'set-new': (lambda c, v, r: c.set('new', v, retry=r), 'write'),
        'add': (lambda c, v, r: c.add('new', v, retry=r), 'write'),
        'add-present': (lambda c, v, r: c.add('k1', v, retry=r), 'write'),
        'incr': (lambda c, v, r: c.incr('n', 2, retry=r), 'write'),
        'decr': (lambda c, v, r: c.decr('n', 2, retry=r), 'write'),
        'incr-new': (lambda c, v, r: c.incr('n2', 2, retry=r), 'write'),
        'touch': (lambda c, v, r: c.touch('k1', expire=100, retry=r), 'write'),
        'pop': (lambda c, v, r: c.pop('k1', default=DFLT, retry=r), 'write'),
        'pop-file': (lambda c, v, r: c.pop('kf', default=DFLT, retry=r), 'write'),
        'delete': (lambda c, v, r: c.delete('k1', retry=r), 'write'),
        'delete-file': (lambda c, v, r: c.delete('kf', retry=r), 'write'),
        'delitem': (lambda c, v, r: c.__delitem__('kf', retry=r), 'write'),
        'push': (lambda c, v, r: c.push(v, prefix='q', retry=r), 'write'),
        'push-front': (lambda c, v, r: c.push(v, side='front', retry=r), 'write'),
        'pull': (lambda c, v, r: c.pull(prefix='q', retry=r), 'write'),
        'peek': (lambda c, v, r: c.peek(prefix='q', retry=r), 'write'),
        'peekitem': (lambda c, v, r: c.peekitem(retry=r), 'write'),
        'transact': (lambda c, v, r: _block(c, v, r), 'write'),
        'check': (lambda c, v, r: _check(c, r), 'write'),
        'clear': (lambda c, v, r: c.clear(retry=r), 'bulk'),
        'evict': (lambda c, v, r: c.evict('t', retry=r), 'bulk'),
        'expire': (lambda c, v, r: c.expire(retry=r), 'bulk'),
        'cull': (lambda c, v, r: c.cull(retry=r), 'bulk'),
        'get-txn': (lambda c, v, r: c.get('k1', default=DFLT, retry=r), 'txnread'),
        'getitem-txn-file': (lambda c, v, r: c.get('kf', default=DFLT, retry=r), 'txnread'),
        'read-txn': (lambda c, v, r: _read(c.read('kf', retry=r)), 'txnread'),
        'get': (lambda c, v, r: c.get('k1', default=DFLT), 'read'),
        'get-file': (lambda c, v, r: c.get('kf', default=DFLT), 'read'),
        'getitem': (lambda c, v, r: c['kf'], 'read'),
        'read': (lambda c, v, r: _read(c.read('kf')), 'read'),
        'contains': (lambda c, v, r: ('k1' in c, 'zz' in c), 'read'),
        'len': (lambda c, v, r: len(c), 'read'),
        'iter': (lambda c, v, r: (list(c)[:5], list(reversed(c))[:5]), 'read'),
        'iterkeys': (lambda c, v, r: list(c.iterkeys())[:5], 'read'),
        'volume': (lambda c, v, r: c.volume() > 0, 'read'),
    }


def _check(c, r):
    from ..common import run_check

    return run_check(c, retry=r)


def _block(c, v, r):
    with c.transact(retry=r):
        c.set('k1', v)
        c.set('k2', v)
    return 'done'


def _read(handle):
    try:
        return handle.read()
    finally:
        handle.close()


RETRY_ONLY = {
    'setitem': lambda c, v: c.__setitem__('k1', v),
    'delitem-op': lambda c, v: c.__delitem__('kf'),
    'getitem-op': lambda c, v: c['kf'],  # the operator forms retry (tutorial); under statistics/LRU a lookup needs the lock
    'getitem-op-inline': lambda c, v: c['k1'],
}


def fanout_ops():
    return {
        'set': (lambda c, v, r: c.set('k1', v, retry=r), 'write', False),
        'add': (lambda c, v, r: c.add('new', v, retry=r), 'write', False),
        'incr': (lambda c, v, r: c.incr('n', 2, retry=r), 'write', None),
        'decr': (lambda c, v, r: c.decr('n', 2, retry=r), 'write', None),
        'touch': (lambda c, v, r: c.touch('k1', expire=100, retry=r), 'write', False),
        'pop': (lambda c, v, r: c.pop('kf', default=DFLT, retry=r), 'write', DFLT),
        'delete': (lambda c, v, r: c.delete('kf', retry=r), 'write', False),
        'get-txn': (lambda c, v, r: c.get('k1', default=DFLT, retry=r), 'txnread', DFLT),
        'get': (lambda c, v, r: c.get('kf', default=DFLT), 'read', None),
        'getitem': (lambda c, v, r: c['kf'], 'read', None),
        'read': (lambda c, v, r: _read(c.read('kf')), 'read', None),
        'contains': (lambda c, v, r: ('k1' in c, 'zz' in c), 'read', None),
        'len': (lambda c, v, r: len(c), 'read', None),
        'iter': (lambda c, v, r: sorted(map(repr, c))[:5], 'read', None),
        'volume': (lambda c, v, r: c.volume() > 0, 'read', None),
    }


def fanout_loops():
    return {
        'clear': lambda c, v: c.clear(),
        'evict': lambda c, v: c.evict('t'),
        'expire': lambda c, v: c.expire(),
        'cull': lambda c, v: c.cull(),
        'setitem': lambda c, v: c.__setitem__('k1', v),
        'delitem': lambda c, v: c.__delitem__('kf'),
        'set-retry': lambda c, v: c.set('k1', v, retry=True),
        'incr-retry': lambda c, v: c.incr('n', 2, retry=True),
        'transact': lambda c, v: _fblock(c, v),
        'getitem': lambda c, v: c['kf'],
        'read': lambda c, v: _read(c.read('kf')),
    }


def _fblock(c, v):
    with c.transact():
        c.set('k1', v)
        c.set('k2', v)
    return 'done'


def django_ops():
    return {
        'set': (lambda c, v, r: c.set('k1', v, 100, retry=r), 'write', False),
        'add': (lambda c, v, r: c.add('new', v, 100, retry=r), 'write', False),
        'touch': (lambda c, v, r: c.touch('k1', 50, retry=r), 'write', False),
        'pop': (lambda c, v, r: c.pop('kf', default=DFLT, retry=r), 'write', DFLT),
        'delete': (lambda c, v, r: c.delete('kf', retry=r), 'write', False),
        'incr': (lambda c, v, r: c.incr('n', 2, retry=r), 'write', None),
        'decr': (lambda c, v, r: c.decr('n', 2, retry=r), 'write', None),
        'get-txn': (lambda c, v, r: c.get('k1', default=DFLT, retry=r), 'txnread', DFLT),
        'get': (lambda c, v, r: c.get('kf', default=DFLT), 'read', None),
        'has_key': (lambda c, v, r: (c.has_key('k1'), c.has_key('zz')), 'read', None),
        'get_many': (lambda c, v, r: c.get_many(['k1', 'kf', 'zz']), 'read', None),
        'contains': (lambda c, v, r: 'k1' in c, 'read', None),
    }


def deque_ops():
    return {
        'getitem': lambda d, v: d[1],
        'iter': lambda d, v: list(d),
        'append': lambda d, v: d.append(v),
        'appendleft': lambda d, v: d.appendleft(v),
        'extend': lambda d, v: d.extend([v, 1]),
        'pop': lambda d, v: d.pop(),
        'popleft': lambda d, v: d.popleft(),
        'peek': lambda d, v: d.peek(),
        'setitem': lambda d, v: d.__setitem__(1, v),
        'delitem': lambda d, v: d.__delitem__(1),
        'rotate': lambda d, v: d.rotate(2),
        'remove': lambda d, v: d.remove(2),
        'clear': lambda d, v: d.clear(),
        'reverse': lambda d, v: d.reverse(),
    }


def index_ops():
    return {
        'getitem': lambda i, v: i['kf'],
        'values': lambda i, v: list(i.values()),
        'setitem': lambda i, v: i.__setitem__('k1', v),
        'setitem-new': lambda i, v: i.__setitem__('new', v),
        'delitem': lambda i, v: i.__delitem__('kf'),
        'pop': lambda i, v: i.pop('kf'),
        'popitem': lambda i, v: i.popitem(),
        'setdefault': lambda i, v: i.setdefault('new', v),
        'push': lambda i, v: i.push(v, 'q'),
        'pull': lambda i, v: i.pull('q'),
        'update': lambda i, v: i.update({'k1': v, 'new': 1}),
        'clear': lambda i, v: i.clear(),
    }


def all_cells():
    cells = []
    for name, (_, kind) in cache_ops().items():
        for val in ('inline', 'file'):
            if kind == 'read':
                cells.append(('cache', name, ('held',), val, False, 'fast'))
                continue
            cfgs = ['stats', 'lru'] if kind == 'txnread' else ['fast']
            for cfg in cfgs:
                for inj in [('held',), ('at-begin',)] + ([('page2',)] if kind == 'bulk' else []):
                    cells.append(('cache', name, inj, val, False, cfg))
                for k in range(1, 6):
                    cells.append(('cache', name, ('release', k), val, True, cfg))
                cells.append(('cache', name, ('release', 1), val, False, cfg))
    for name in RETRY_ONLY:
        for val in ('inline', 'file'):
            for cfg in (['fast'] if not name.startswith('getitem') else ['stats', 'lru']):
                for k in range(1, 6):
                    cells.append(('cache', name, ('release', k), val, True, cfg))
    for target, table in (('fanout', fanout_ops()), ('django', django_ops())):
        for name, (_, kind, _) in table.items():
            for val in ('inline', 'file'):
                if kind == 'read':
                    cells.append((target, name, ('held',), val, False, 'fast'))
                    continue
                cfgs = ['stats', 'lru'] if kind == 'txnread' else ['fast']
                for cfg in cfgs:
                    for inj in (('held',), ('at-begin',)):
                        cells.append((target, name, inj, val, False, cfg))
                    for k in (1, 2, 4):
                        cells.append((target, name, ('release', k), val, True, cfg))
    for name in fanout_loops():
        for val in ('inline', 'file'):
            for cfg in (['fast'] if name not in ('getitem', 'read') else ['stats', 'lru']):
                for k in (1, 2, 3, 5):
                    cells.append(('fanout', 'loop:' + name, ('release', k), val, True, cfg))
                cells.append(('fanout', 'loop:' + name, ('flap',), val, True, cfg))
    for target, table in (('deque', deque_ops()), ('index', index_ops())):
        for name in table:
            for val in ('inline', 'file'):
                for cfg in (['fast'] if name not in ('getitem', 'iter', 'values') else ['stats']):
                    for k in (1, 2, 3, 5):
                        cells.append((target, name, ('release', k), val, True, cfg))
    return cells


class World:
    """One directory with a pre-state; built twice (faulted and unfaulted twin)."""

    def __init__(self, env, target, cfg, pre, clock):
        import diskcache

        self.target = target
        self.path = env.scratch.fresh('c14')
        self.env = env
        kw = dict(timeout=0, disk_min_file_size=64)
        if cfg == 'stats':
            kw['statistics'] = True
        elif cfg == 'lru':
            kw['eviction_policy'] = 'least-recently-used'
        n_bulk = pre.get('bulk', 0)
        if target == 'cache':
            self.obj = self.cache = diskcache.Cache(self.path, **kw)
            self.dbs = [os.path.join(self.path, 'cache.db')]
            self.dirs = [self.path]
            setter = lambda k, v, **o: self.obj.set(k, v, **o)
        elif target == 'fanout':
            self.obj = diskcache.FanoutCache(self.path, shards=2, **kw)
            self.dirs = [os.path.join(self.path, '%03d' % i) for i in range(2)]
            self.dbs = [os.path.join(d, 'cache.db') for d in self.dirs]
            setter = lambda k, v, **o: self.obj.set(k, v, **o)
        elif target == 'django':
            from diskcache.djangocache import DjangoCache

            opts = {k: v for k, v in kw.items() if k != 'timeout'}
            self.obj = DjangoCache(self.path, {'SHARDS': 2, 'DATABASE_TIMEOUT': 0, 'OPTIONS': opts})
            self.dirs = [os.path.join(self.path, '%03d' % i) for i in range(2)]
            self.dbs = [os.path.join(d, 'cache.db') for d in self.dirs]
            setter = lambda k, v, **o: self.obj.set(k, v, None, tag=o.get('tag'))
        elif target == 'deque':
            self.cache = diskcache.Cache(self.path, eviction_policy='none', **kw)
            self.obj = diskcache.Deque.fromcache(self.cache)
            self.dbs = [os.path.join(self.path, 'cache.db')]
            self.dirs = [self.path]
            for v in pre.get('items', [1, FILE_V, 2, 3]):
                self.obj.append(v)
            return
        else:
            self.cache = diskcache.Cache(self.path, eviction_policy='none', **kw)
            self.obj = diskcache.Index.fromcache(self.cache)
            self.dbs = [os.path.join(self.path, 'cache.db')]
            self.dirs = [self.path]
            setter = lambda k, v, **o: self.obj.__setitem__(k, v)
        for k, v in pre.get('kv', [('k0', 0), ('k1', INLINE_V), ('k2', FILE_V), ('kf', FILE_V), ('n', 10)]):
            setter(k, v)
        if target in ('cache', 'index'):
            c = self.obj if target == 'cache' else self.cache
            for v in pre.get('queue', [INLINE_V, FILE_V]):
                c.push(v, prefix='q')
        if target in ('cache', 'fanout'):
            for j in range(n_bulk):
                self.obj.set('b%03d' % j, j if j % 7 else FILE_V, tag='t', expire=5)
            if n_bulk:
                clock.advance(10)

    def snapshot(self):
        return tuple(Snapshot(d).key() for d in self.dirs)

    def logical(self):
        """Contents through the API (keys and values)."""
        t = self.target
        if t == 'deque':
            try:
                return ('deque', list(self.obj))
            except Exception as exc:  # an item that is listed but cannot be read
                return ('deque', 'UNREADABLE: %s' % type(exc).__name__, list(self.cache))
        if t == 'index':
            return ('index', [(k, self.cache.get(k, 'LISTED-BUT-UNREADABLE')) for k in list(self.obj.keys())])
        if t == 'django':
            c = self.obj._cache
        else:
            c = self.obj
        return (t, sorted((repr(k), repr(c.get(k, 'MISSING'))[:80]) for k in c))

    def close(self):
        try:
            if self.target in ('deque', 'index'):
                self.cache.close()
            else:
                self.obj.close()
        finally:
            self.env.scratch.drop(self.path)


def run_op(world, name, value, retry):
    t = world.target
    if t == 'cache':
        if name in RETRY_ONLY:
            return RETRY_ONLY[name](world.obj, value)
        return cache_ops()[name][0](world.obj, value, retry)
    if t == 'fanout':
        if name.startswith('loop:'):
            return fanout_loops()[name[5:]](world.obj, value)
        return fanout_ops()[name][0](world.obj, value, retry)
    if t == 'django':
        return django_ops()[name][0](world.obj, value, retry)
    if t == 'deque':
        return deque_ops()[name](world.obj, value)
    return index_ops()[name](world.obj, value)


def kind_of(target, name):
    if target == 'cache':
        return 'write' if name in RETRY_ONLY else cache_ops()[name][1]
    if target == 'fanout':
        return 'write' if name.startswith('loop:') else fanout_ops()[name][1]
    if target == 'django':
        return django_ops()[name][1]
    return 'write'


def failure_value(target, name):
    table = fanout_ops() if target == 'fanout' else django_ops()
    return table[name][2]


def execute_cell(env, cell, pre):
    from diskcache import Timeout

    target, name, inj, val, retry, cfg = cell
    seams = get_seams(env)
    clock = seams.clock
    value = FILE_V if val == 'file' else INLINE_V
    kind = kind_of(target, name)
    pre = dict(pre)
    if kind == 'bulk' or name.startswith('loop:'):
        pre.setdefault('bulk', 150)
        if inj[0] == 'flap':
            pre['bulk'] = max(pre['bulk'], 520)  # several 100-row pages per shard: several partial counts
    sig = 'C14/%s.%s/%s' % (target, name, inj[0])
    desc = 'cell=%r pre=%r' % (cell, {k: (v if k != 'kv' else '...') for k, v in pre.items()})
    world = World(env, target, cfg, pre, clock)
    twin = None
    injector = LockInjector(world.dbs, inj[0], inj[1] if len(inj) > 1 else 0)
    try:
        before = world.snapshot()
        logical_before = world.logical() if kind == 'read' else None
        if inj[0] in ('held', 'release'):
            injector.hold()
        seams.ctl = injector
        injector.active = True
        try:
            try:
                result = ('ok', run_op(world, name, value, retry))
            except Timeout as exc:
                result = ('timeout', exc.args)
            except Abort:
                raise Violation(sig + '/no-progress', 'more than 3000 BEGIN attempts: the call never returns although the lock was released at attempt %r\n%s' % (inj[1:], desc))
            except Exception as exc:
                result = ('exc', type(exc).__name__, str(exc)[:200])
        finally:
            injector.active = False
            seams.ctl = Controller()
        contended = injector.failed >= 1
        injector.release()
        after = world.snapshot()
        releasing = inj[0] in ('release', 'flap')
        if kind == 'read':
            # lookups that need no write keep working while another client holds the lock
            expect = None
            twin = World(env, target, cfg, pre, clock)
            try:
                expect = ('ok', run_op(twin, name, value, retry))
            except Exception as exc:
                expect = ('exc', type(exc).__name__, str(exc)[:200])
            if strict(result) != strict(expect):
                raise Violation(sig + '/read-while-locked', 'with the write lock held elsewhere the call gave %s, without the lock %s\n%s' % (short(result), short(expect), desc))
            if after != before:
                raise Violation(sig + '/read-changed-state', 'a lock-free read changed the directory\n%s' % desc)
            return {'nontrivial': True, 'classes': ['%s/%s' % (target, inj[0]), 'kind=read']}
        if releasing:
            # the call must go through exactly once: same result and contents as an unfaulted twin
            twin = World(env, target, cfg, pre, clock)
            try:
                expect = ('ok', run_op(twin, name, value, retry))
            except Timeout as exc:
                expect = ('timeout', exc.args)
            except Exception as exc:
                expect = ('exc', type(exc).__name__, str(exc)[:200])
            if result[0] == 'timeout' and not (inj[0] == 'release' and inj[1] > 1 and not retry):
                raise Violation(sig + '/timeout-despite-release', 'the lock was released (%r, retry=%r) but the call reported %s\n%s' % (inj, retry, short(result), desc))
            if strict(_norm(result)) != strict(_norm(expect)):
                raise Violation(sig + '/result-differs-from-unfaulted', 'result %s, unfaulted twin %s\n%s' % (short(result), short(expect), desc))
            if strict(world.logical()) != strict(twin.logical()):
                raise Violation(sig + '/effect-not-exactly-once', 'contents after the retried call %s, unfaulted twin %s\n%s' % (short(world.logical(), 400), short(twin.logical(), 400), desc))
            for d in world.dirs:
                probs = Snapshot(d).problems()
                if probs:
                    raise Violation(sig + '/audit/' + probs[0][0], 'rows and files disagree after the retried call: %s\n%s' % (short(probs, 300), desc))
            return {'nontrivial': contended, 'classes': ['%s/%s' % (target, inj[0]), 'kind=' + kind] + (['contended'] if contended else [])}
        # the lock is never released during the call
        if target == 'cache':
            if result[0] != 'timeout':
                raise Violation(sig + '/no-timeout', 'the write lock was unavailable but the call gave %s instead of raising Timeout\n%s' % (short(result), desc))
            if kind == 'bulk':
                n = result[1][0] if result[1] else None
                gone = _count(before) - _count(after)
                if inj[0] == 'page2':
                    if type(n) is not int or n != gone or n % 100 != 0 or n == 0:
                        raise Violation(sig + '/bulk-count', 'Timeout%r after the lock was taken at the 2nd page, but %d items are gone (must equal the reported count, a positive multiple of 100)\n%s' % (result[1], gone, desc))
                    return {'nontrivial': contended, 'classes': ['cache/page2', 'contended'] if contended else ['cache/page2']}
                if n != 0 or gone != 0:
                    raise Violation(sig + '/bulk-count', 'Timeout%r with the lock held from the start, %d items gone (expected Timeout(0), nothing gone)\n%s' % (result[1], gone, desc))
            if after != before:
                raise Violation(sig + '/changed-state' + _what_changed(before, after), 'the call raised Timeout but the directory changed: %s\n%s' % (_diff(before, after), desc))
        else:
            if result[0] != 'ok':
                raise Violation(sig + '/raised', '%s data operations never raise on a lock timeout; got %s\n%s' % (target, short(result), desc))
            want = failure_value(target, name)
            if not same(result[1], want):
                raise Violation(sig + '/failure-value', 'on a lock timeout %s.%s must return %r, returned %s\n%s' % (target, name, want, short(result[1]), desc))
            if after != before:
                raise Violation(sig + '/changed-state' + _what_changed(before, after), 'the call reported failure but the directory changed: %s\n%s' % (_diff(before, after), desc))
        return {'nontrivial': contended, 'classes': ['%s/%s' % (target, inj[0]), 'kind=' + kind] + (['contended'] if contended else [])}
    finally:
        seams.ctl = Controller()
        injector.close()
        world.close()
        if twin is not None:
            twin.close()


def _norm(result):
    # file handles / generated queue keys compare by value already; nothing to normalise
    return result


def _count(snap):
    return sum(len(s[0]) for s in snap)


def _what_changed(before, after):
    for b, a in zip(before, after):
        if b[3] != a[3]:
            return '/files'
        if b[0] != a[0]:
            return '/rows'
    return '/counters'


def _diff(before, after):
    out = []
    for b, a in zip(before, after):
        fb, fa = dict(b[3]), dict(a[3])
        new = sorted(set(fa) - set(fb))
        gone = sorted(set(fb) - set(fa))
        if new:
            out.append('new files %r' % new)
        if gone:
            out.append('removed files %r' % gone)
        if len(b[0]) != len(a[0]):
            out.append('rows %d -> %d' % (len(b[0]), len(a[0])))
        elif b[0] != a[0]:
            out.append('row contents changed')
        if (b[1], b[2]) != (a[1], a[2]):
            out.append('count/size %r -> %r' % ((b[1], b[2]), (a[1], a[2])))
    return '; '.join(out) or 'snapshot differs'


class Matrix(SubCheck):
    name = 'matrix'
    exhaustive = True

    def examples(self, tier):
        return 0

    def enumerate(self, tier):
        for cell in all_cells():
            yield {'cell': cell, 'pre': {}}

    def execute(self, case, env):
        cell = tuple(tuple(x) if isinstance(x, list) else x for x in case['cell'])
        return execute_cell(env, cell, case['pre'])

    def selftest(self, env):
        from ..conc import io_selftest

        io_selftest(env)


class Sampled(SubCheck):
    """The same cells with generated pre-states."""

    name = 'generated_prestates'

    def examples(self, tier):
        return 60 if tier == 'quick' else 2500

    def strategy(self, tier):
        cells = all_cells()
        v = st.sampled_from([INLINE_V, FILE_V, 5, b'x' * 70, 'y' * 70, None])
        kv = st.fixed_dictionaries({'k0': v, 'k1': v, 'k2': v, 'kf': st.sampled_from([FILE_V, b'g' * 300]), 'n': st.integers(-5, 5)}).map(lambda d: list(d.items()))
        return st.fixed_dictionaries(
            {
                'cell': st.sampled_from(cells),
                'pre': st.fixed_dictionaries(
                    {
                        'kv': kv,
                        'bulk': st.sampled_from([0, 0, 101, 150, 230]),
                        'queue': st.lists(v, min_size=1, max_size=3),
                        'items': st.lists(st.sampled_from([1, 2, FILE_V, 'a']), min_size=3, max_size=6).map(lambda l: l + [2]),
                    }
                ),
            }
        )

    def execute(self, case, env):
        cell = tuple(tuple(x) if isinstance(x, list) else x for x in case['cell'])
        pre = dict(case['pre'])
        if pre.get('bulk') == 0:
            pre.pop('bulk')
        return execute_cell(env, cell, pre)


SUBCHECKS = [Matrix(), Sampled()]
