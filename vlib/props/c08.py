"""C08 — counters, rows and value files always agree once no operation is in flight."""

import errno
import io
import sqlite3
import warnings

from hypothesis import strategies as st

from ..audit import Snapshot
from ..common import HarnessError, Violation, short
from ..conc import get_seams, io_selftest
from ..engine import SubCheck
from ..seams import Controller, sql_label
from . import c05

LEVEL = 'fault_enumeration'
RULE = (
    'histories of the full API (set/replace, add on present and absent keys, incr, touch, pop, delete, push/pull/peek, '
    'peekitem, clear/evict/expire/cull over > 100 rows, eviction under a small size_limit, transaction blocks that commit or '
    'abort, unencodable values: lone-surrogate text >= threshold, unpicklable object, stream failing on its second chunk) plus '
    'at most ONE injected failure: sqlite3.OperationalError("disk I/O error") at the n-th statement of op j (a failing COMMIT '
    'rolls back first, as SQLite does; a failing BEGIN is a lock timeout), or OSError(ENOSPC) at the n-th file open/write '
    'chunk/makedirs of op j, or OSError(EIO) at the n-th open-for-reading/read of a value file. quick tier: one sampled fault site per history; thorough tier: EVERY fault site of every '
    'generated history; plus 2-4 client scheduled programs (C05). Oracle after the last call returned or raised: '
    'Settings.count = #rows, Settings.size = sum of row sizes, every row with a filename has a file of the recorded size, '
    'no *.val file without a row, len()/volume() agree, check() reports nothing but EmptyDirWarning. non-trivial = a fault '
    'fired after >= 1 file operation or row write of the faulted op, or a value was rejected after its file was opened, or an '
    'abort/replace/eviction of a file-backed value occurred; distinct by (history hash, fault site)'
)
ASSUMPTIONS = [
    'failures of os.remove/rmdir are not injected: no implementation can satisfy "no unreferenced file" when unlink fails, and Disk.remove documents that it suppresses them',
    'a fault is never injected at ROLLBACK',
    'a fault inside a transaction block aborts the block (callers do not swallow a half-failed operation and then commit)',
]

KEYS = ['a', 'b', 'c', 'd']


class Boom(Exception):
    pass


class FailingStream:
    def __init__(self, first):
        self.first = first
        self.n = 0

    def read(self, size=-1):
        self.n += 1
        if self.n == 1:
            return self.first
        raise IOError('stream failed on second read')


def mkval(spec):
    kind = spec[0]
    if kind == 'i':
        return spec[1], False
    if kind == 's':
        return 's%d' % spec[1], False
    if kind == 'B':
        return bytes([spec[1] % 256]) * spec[2], False
    if kind == 'T':
        return chr(97 + spec[1] % 26) * spec[2], False
    if kind == 'U':
        return ('\u00e9\u4e2d\U0001f600'[spec[1] % 3]) * spec[2], False
    if kind == 'P':
        return {'n': spec[1], 'pad': 'p' * spec[2]}, False
    if kind == 'bad-surrogate':
        return 'ab' * 40 + '\ud800' + 'c' * spec[1], False
    if kind == 'bad-pickle':
        return [lambda: None], False
    if kind == 'bad-stream':
        return FailingStream(b'z' * spec[1]), True
    if kind == 'stream':
        return io.BytesIO(bytes([spec[1] % 256]) * spec[2]), True
    raise HarnessError('bad value %r' % (spec,))


values = st.one_of(
    st.tuples(st.just('i'), st.integers(0, 9)),
    st.tuples(st.just('s'), st.integers(0, 9)),
    st.tuples(st.just('B'), st.integers(0, 255), st.sampled_from([100, 4096, 8192])),
    st.tuples(st.just('B'), st.integers(0, 255), st.sampled_from([100, 4096, 8192])),
    st.tuples(st.just('T'), st.integers(0, 25), st.sampled_from([100, 3000])),
    st.tuples(st.just('U'), st.integers(0, 2), st.sampled_from([70, 100, 3000])),
    st.tuples(st.just('P'), st.integers(0, 9), st.sampled_from([100, 2000])),
    st.tuples(st.just('stream'), st.integers(0, 255), st.sampled_from([10, 300])),
    st.tuples(st.just('bad-surrogate'), st.sampled_from([1, 100])),
    st.tuples(st.just('bad-pickle')),
    st.tuples(st.just('bad-stream'), st.sampled_from([10, 200])),
)


def simple_ops():
    k = st.sampled_from(KEYS)
    ttl = st.sampled_from([None, None, 5])
    return st.one_of(
        st.tuples(st.just('set'), k, values, ttl),
        st.tuples(st.just('set'), k, values, ttl),
        st.tuples(st.just('set'), k, values, ttl),
        st.tuples(st.just('add'), k, values, ttl),
        st.tuples(st.just('incr'), st.sampled_from(['n'] + KEYS)),
        st.tuples(st.just('touch'), k),
        st.tuples(st.just('get'), k),
        st.tuples(st.just('pop'), k),
        st.tuples(st.just('delete'), k),
        st.tuples(st.just('push'), values, st.sampled_from([None, 'q'])),
        st.tuples(st.just('pull'), st.sampled_from([None, 'q'])),
        st.tuples(st.just('peek'), st.sampled_from([None, 'q'])),
        st.tuples(st.just('peekitem')),
        st.tuples(st.just('advance'), st.sampled_from([1, 10])),
        # rare-by-chance shapes, generated on purpose: an expired file-backed item meets incr / add / set / pull / peek
        st.tuples(st.just('expired-then'), k, st.sampled_from(['incr', 'add', 'set', 'touch', 'pop', 'get']), st.integers(0, 255)),
        st.tuples(st.just('expired-queue-then'), st.sampled_from(['pull', 'peek', 'push', 'peekitem']), st.integers(0, 255)),
        # a live file-backed item is read by the call that also removes it (or only looks at it): the read-side fault sites
        st.tuples(st.just('file-item-then'), st.sampled_from(['pull', 'pull-back', 'peek', 'pop', 'get', 'peekitem']), st.integers(0, 255)),
        # a few expired file-backed items and then writes that take the cache over its size limit (where it has one): the
        # lazy cull of one write removes expired rows AND evicts by policy
        st.tuples(st.just('mixed-cull'), st.integers(1, 4), st.integers(0, 255)),
    )


def ops_strategy():
    simple = simple_ops()
    return st.one_of(
        simple,
        simple,
        simple,
        simple,
        st.tuples(st.just('block'), st.lists(simple, min_size=1, max_size=4), st.booleans()),
        st.tuples(st.just('bulk'), st.integers(101, 160), st.sampled_from(['i', 'B'])),
        st.tuples(st.just('clear')),
        st.tuples(st.just('evict')),
        st.tuples(st.just('expire')),
        st.tuples(st.just('cull')),
    )


def apply_op(cache, clock, op, state):
    name = op[0]
    if name == 'advance':
        clock.advance(op[1])
    elif name in ('set', 'add'):
        v, read = mkval(op[2])
        getattr(cache, name)(op[1], v, expire=op[3], read=read, tag='t')
    elif name == 'incr':
        cache.incr(op[1])
    elif name == 'touch':
        cache.touch(op[1], expire=50)
    elif name == 'get':
        cache.get(op[1])
    elif name == 'pop':
        cache.pop(op[1])
    elif name == 'delete':
        cache.delete(op[1])
    elif name == 'push':
        v, read = mkval(op[1])
        cache.push(v, prefix=op[2], read=read)
    elif name == 'pull':
        cache.pull(prefix=op[1])
    elif name == 'peek':
        cache.peek(prefix=op[1])
    elif name == 'peekitem':
        try:
            cache.peekitem()
        except KeyError:
            pass
    elif name == 'expired-then':
        cache.set(op[1], bytes([op[3]]) * 300, expire=5, tag='t')
        clock.advance(10)
        what = op[2]
        if what == 'incr':
            cache.incr(op[1])
        elif what == 'add':
            cache.add(op[1], bytes([op[3]]) * 200)
        elif what == 'set':
            cache.set(op[1], 1)
        elif what == 'touch':
            cache.touch(op[1], expire=50)
        elif what == 'pop':
            cache.pop(op[1])
        else:
            cache.get(op[1])
    elif name == 'expired-queue-then':
        cache.push(bytes([op[2]]) * 300, prefix='q', expire=5)
        cache.push(bytes([op[2]]) * 300, prefix='q', side='front', expire=5)
        clock.advance(10)
        what = op[1]
        if what == 'pull':
            cache.pull(prefix='q')
        elif what == 'peek':
            cache.peek(prefix='q', side='back')
        elif what == 'push':
            cache.push(1, prefix='q')
        else:
            try:
                cache.peekitem()
            except KeyError:
                pass
    elif name == 'mixed-cull':
        for i in range(9):
            cache.set('big%d' % i, bytes([op[2]]) * 8000)
        for i in range(op[1]):
            cache.set('mx%d' % i, bytes([op[2]]) * 300, expire=5)
        clock.advance(10)
        for i in range(3):
            cache.set('late%d' % i, bytes([op[2]]) * 8000)
    elif name == 'file-item-then':
        what = op[1]
        if what in ('pop', 'get'):
            cache.set('fk', bytes([op[2]]) * 300)
            (cache.pop if what == 'pop' else cache.get)('fk')
        else:
            cache.push(bytes([op[2]]) * 300, prefix='q')
            if what == 'pull':
                cache.pull(prefix='q')
            elif what == 'pull-back':
                cache.pull(prefix='q', side='back')
            elif what == 'peek':
                cache.peek(prefix='q')
            else:
                cache.peekitem()
    elif name == 'block':
        with cache.transact():
            for inner in op[1]:
                try:
                    apply_op(cache, clock, inner, state)
                except (KeyError,):
                    pass
            if op[2]:
                state['aborts'] += 1
                raise Boom()
    elif name == 'bulk':
        for j in range(op[1]):
            cache.set('bulk%03d' % j, j if op[2] == 'i' else bytes([j % 256]) * 100, expire=5 if j % 2 else None, tag='t')
    elif name == 'clear':
        cache.clear()
    elif name == 'evict':
        cache.evict('t')
    elif name == 'expire':
        cache.expire()
    elif name == 'cull':
        cache.cull()
    else:
        raise HarnessError('unknown op %r' % (op,))


class FaultInjector(Controller):
    """Counts seam events per op; raises the configured fault once."""

    def __init__(self, fault):
        self.fault = fault  # None | ('sql', j, n) | ('io', j, n)
        self.op_index = -1
        self.sql_n = 0
        self.io_n = 0
        self.rio_n = 0
        self.sites = []  # (j, kind, n, label)
        self.fired = None
        self.progress_before_fault = 0
        self.file_events = 0
        self.busy = False

    def start_op(self, j):
        self.op_index = j
        self.sql_n = 0
        self.io_n = 0
        self.rio_n = 0
        self.progress = 0

    def event(self, kind, label, con=None):
        if self.op_index < 0 or self.busy:
            return
        j = self.op_index
        if kind == 'sql':
            lab = sql_label(label)
            if lab.startswith('sql:ROLLBACK') or lab.startswith('sql:PRAGMA') or lab.startswith('sql:SELECT') and False:
                return
            self.sql_n += 1
            self.sites.append((j, 'sql', self.sql_n, lab))
            if self.fault is not None and self.fired is None and self.fault[0] == 'sqlfull' and self.fault[1] == j and self.fault[2] == self.sql_n:
                # "database or disk is full" in the middle of a transaction: SQLite rolls the whole transaction back by itself
                # before it reports the error (it does so when a row update cannot be undone statement-wise)
                self.fired = (j, 'sqlfull', self.sql_n, lab)
                self.progress_before_fault = self.progress
                if con is not None and con.in_transaction:
                    self.busy = True
                    try:
                        sqlite3.Connection.execute(con, 'ROLLBACK')
                    finally:
                        self.busy = False
                raise sqlite3.OperationalError('database or disk is full')
            if self.fault is not None and self.fired is None and self.fault[0] == 'sql' and self.fault[1] == j and self.fault[2] == self.sql_n:
                self.fired = (j, 'sql', self.sql_n, lab)
                self.progress_before_fault = self.progress
                if lab == 'sql:COMMIT' and con is not None:
                    self.busy = True
                    try:
                        sqlite3.Connection.execute(con, 'ROLLBACK')  # SQLite rolls back when COMMIT fails with an I/O error
                    finally:
                        self.busy = False
                raise sqlite3.OperationalError('disk I/O error')
            if lab.split()[0] in ('sql:INSERT', 'sql:UPDATE', 'sql:DELETE'):
                self.progress += 1
        elif kind == 'read' or (kind == 'open' and not any(c in label for c in 'wxa')):
            # read side: one OS error while a value file is opened or read
            self.rio_n += 1
            self.sites.append((j, 'rio', self.rio_n, kind))
            if self.fault is not None and self.fired is None and self.fault[0] == 'rio' and self.fault[1] == j and self.fault[2] == self.rio_n:
                self.fired = (j, 'rio', self.rio_n, kind)
                self.progress_before_fault = self.progress
                raise OSError(errno.EIO, 'Input/output error')
        elif kind in ('open', 'write', 'makedirs'):
            self.io_n += 1
            self.sites.append((j, 'io', self.io_n, kind))
            if self.fault is not None and self.fired is None and self.fault[0] == 'io' and self.fault[1] == j and self.fault[2] == self.io_n:
                self.fired = (j, 'io', self.io_n, kind)
                self.progress_before_fault = self.progress
                raise OSError(errno.ENOSPC, 'No space left on device')
            self.progress += 1
            self.file_events += 1


def run_history(env, case, fault):
    """Run the history with at most one fault; returns (injector, state, problems, info)."""
    import diskcache

    seams = get_seams(env)
    clock = seams.clock
    path = env.scratch.fresh('c08')
    cfg = case['cfg']
    kw = dict(disk_min_file_size=64, eviction_policy=cfg['policy'], cull_limit=cfg['cull_limit'])
    if cfg['size_limit']:
        kw['size_limit'] = cfg['size_limit']
    cache = diskcache.Cache(path, **kw)
    inj = FaultInjector(fault)
    state = {'aborts': 0, 'rejected': 0, 'raised': []}
    try:
        seams.ctl = inj
        try:
            for j, op in enumerate(case['ops']):
                inj.start_op(j)
                try:
                    apply_op(cache, clock, op, state)
                except Boom:
                    pass
                except Exception as exc:
                    state['raised'].append((j, type(exc).__name__))
                    if inj.file_events and op[0] in ('set', 'add', 'push'):
                        state['rejected'] += 1
        finally:
            inj.op_index = -1
            seams.ctl = Controller()
        # quiescence: nothing in flight
        snap = Snapshot(path)
        problems = snap.problems()
        n = len(cache)
        if n != len(snap.rows):
            problems.append(('len', 'len(cache)=%d but %d rows' % (n, len(snap.rows))))
        with warnings.catch_warnings():
            warnings.simplefilter('always')
            warns = cache.check()
        bad = [str(w.message) for w in warns if 'empty directory' not in str(w.message)]
        if bad and not problems:
            problems.append(('check', 'check() reports %s' % short(bad, 300)))
        return inj, state, problems
    finally:
        seams.ctl = Controller()
        cache.close()
        env.scratch.drop(path)


def site_class(inj, case, state):
    if inj.fired is not None:
        j, kind, n, lab = inj.fired
        return '%s-fault/%s/%s' % (kind, case['ops'][j][0], lab.replace('sql:', '').split()[0] if kind in ('sql', 'sqlfull') else lab)
    if state['raised']:
        j, exc = state['raised'][-1]
        op = case['ops'][j]
        v = op[2] if op[0] in ('set', 'add') else (op[1] if op[0] == 'push' else None)
        if type(v) is tuple and str(v[0]).startswith('bad'):
            return 'rejected-value/%s' % v[0]
        return 'raised/%s' % exc
    if state['aborts']:
        return 'aborted-block'
    return 'no-fault'


def judge(case, inj, state, problems):
    if problems:
        kind = problems[0][0]
        raise Violation(
            'C08/audit/%s/%s' % (kind, site_class(inj, case, state)),
            'at quiescence: %s\nfault fired: %r; exceptions raised by calls: %r; aborted blocks: %d\nconfig=%r\nhistory: %s'
            % (short(problems, 500), inj.fired, state['raised'][-3:], state['aborts'], case['cfg'], short(case['ops'], 900)),
        )


cfg_strategy = st.fixed_dictionaries(
    {
        'policy': st.sampled_from(['least-recently-stored', 'least-recently-used', 'none']),
        'cull_limit': st.sampled_from([10, 10, 0, 2]),
        'size_limit': st.sampled_from([None, None, 60000]),
    }
)


class FaultedHistories(SubCheck):
    case_timeout_s = None  # one case is a whole batch of runs (every fault site of a history): each run is watched by itself
    name = 'faulted_histories'

    def examples(self, tier):
        return 150 if tier == 'quick' else 500

    def strategy(self, tier):
        return st.fixed_dictionaries(
            {
                'cfg': cfg_strategy,
                'ops': st.lists(ops_strategy(), min_size=1, max_size=12 if tier == 'quick' else 16),
                'pick': st.integers(0, 10**6),
                'fault_kind': st.sampled_from(['sql', 'sql', 'sqlfull', 'io', 'rio', 'rio', 'none']),
                'site': st.none(),
            }
        )

    def execute(self, case, env):
        tier = env.tier
        # dry run: enumerate the fault sites of this history (and judge the unfaulted run)
        from ..engine import watched

        inj, state, problems = watched(lambda: run_history(env, case, None), 60, 'C08', 'faulted_histories')
        judge(case, inj, state, problems)
        sites = [(kind, j, n) for (j, kind, n, lab) in inj.sites if not (kind == 'sql' and lab in ('sql:ROLLBACK',))]
        sites += [('sqlfull', j, n) for (j, kind, n, lab) in inj.sites if kind == 'sql' and lab.split()[0] in ('sql:INSERT', 'sql:UPDATE', 'sql:DELETE')]
        count = 1
        nontrivial_keys = []
        classes = {}
        base_nt = state['aborts'] > 0 or state['rejected'] > 0
        from ..common import case_hash

        h = case_hash({'cfg': case['cfg'], 'ops': case['ops']})
        if base_nt:
            nontrivial_keys.append(h + '/nofault')
        if case.get('site') is not None:
            chosen = [tuple(case['site'])]
        elif tier == 'quick':
            pool = [s for s in sites if s[0] == case['fault_kind']] or sites
            chosen = [pool[case['pick'] % len(pool)]] if pool and case['fault_kind'] != 'none' else []
        else:
            chosen = sites
            if len(chosen) > 600:
                # a history with bulk writes has thousands of fault sites and every one replays the whole history: an evenly
                # spaced sample (rotated by the case's pick) keeps one case within minutes
                step = -(-len(chosen) // 600)
                chosen = chosen[case['pick'] % step :: step]
                classes['fault-sites-capped'] = 1
        for site in chosen:
            try:
                inj2, state2, problems2 = watched(lambda: run_history(env, case, site), 60, 'C08', 'faulted_histories')
            except Violation as v:
                v.min_case = dict(case, site=list(site))
                raise
            count += 1
            if problems2:
                try:
                    judge(case, inj2, state2, problems2)
                except Violation as v:
                    v.min_case = dict(case, site=list(site))
                    raise
            if inj2.fired is not None:
                lab = inj2.fired[3]
                cls = 'fault=%s/%s' % (site[0], lab.replace('sql:', '').split()[0] if site[0] in ('sql', 'sqlfull') else lab)
                classes[cls] = classes.get(cls, 0) + 1
                if inj2.progress_before_fault >= 1 or state2['aborts'] or state2['rejected']:
                    nontrivial_keys.append('%s/%s/%d/%d' % (h, site[0], site[1], site[2]))
        classes['fault-sites-enumerated' if tier != 'quick' else 'fault-sites-sampled'] = len(chosen)
        return {'count': count, 'nontrivial_keys': nontrivial_keys, 'class_counts': classes}

    def selftest(self, env):
        io_selftest(env)


class Concurrent(SubCheck):
    """2-4 client scheduled programs (C05 generator); the audit runs when every client has finished."""

    name = 'concurrent_programs'

    def examples(self, tier):
        return 120 if tier == 'quick' else 4000

    def strategy(self, tier):
        return c05.program_case()

    def execute(self, case, env):
        box = {}

        def inspect(path, clients):
            snap = Snapshot(path)
            box['problems'] = snap.problems()
            with warnings.catch_warnings():
                warnings.simplefilter('always')
                warns = clients[0].check()
            bad = [str(w.message) for w in warns if 'empty directory' not in str(w.message)]
            if bad and not box['problems']:
                box['problems'].append(('check', 'check() reports %s' % short(bad, 300)))

        calls, init_state, sched = c05.run_program(env, case, inspect=inspect)
        if sched.limit_hit:
            return {'nontrivial': False, 'classes': ['step-limit']}
        if box.get('problems'):
            raise Violation(
                'C08/audit/%s/concurrent' % box['problems'][0][0],
                'after all clients finished: %s\n%s' % (short(box['problems'], 400), '\n'.join('  ' + repr(c) for c in sorted(calls, key=lambda c: c.inv))),
            )
        filey = any(len(c.op) > 2 and type(c.op[2]) is tuple and c.op[2][0] == 'B' for c in calls)
        return {'nontrivial': filey and sched.switches > 0, 'classes': ['mode=' + case['mode']]}


class ConcurrentBlocks(SubCheck):
    """Scheduled programs in which client 0 runs a (possibly aborting) transaction block (C06 generator); audit at quiescence."""

    name = 'concurrent_blocks'

    def examples(self, tier):
        return 100 if tier == 'quick' else 4000

    def strategy(self, tier):
        from . import c06

        return c06.conc_case()

    def execute(self, case, env):
        import diskcache

        from ..conc import run_scheduled
        from . import c06

        n = len(case['progs'])
        box = {}
        # known finding C08/swallowed-failure-in-block: an operation that fails inside a block whose exception the caller
        # handles leaves its freshly written value file behind when the block commits (no savepoints).  Excluded by
        # construction here (counted); the dedicated probe below keeps the witness.
        excluded = 0
        progs = []
        for prog in case['progs']:
            new = []
            for op in prog:
                if op[0] == 'block' and any(i[0] == 'setbad' for i in op[1]):
                    excluded += 1
                    inner = tuple(i for i in op[1] if i[0] != 'setbad') or (('get', 'x'),)
                    op = ('block', inner, op[2])
                new.append(op)
            progs.append(new)
        case = dict(case, progs=progs)

        def open_clients(path):
            base = diskcache.Cache(path, timeout=0, disk_min_file_size=64)
            for k, spec in case['init'].items():
                base.set(k, c05.mk(spec))
            if case['mode'] == 'shared':
                return [base] * n, [base]
            caches = [base] + [diskcache.Cache(path, timeout=0) for _ in range(n - 1)]
            return caches, caches

        def inspect(path, clients):
            box['problems'] = Snapshot(path).problems()

        calls, sched = run_scheduled(env, case['progs'], case['schedule'], open_clients, c06.do_op, 'C08', warm=lambda c: c._sql, inspect=inspect)
        if sched.limit_hit:
            return {'nontrivial': False, 'classes': ['step-limit']}
        if box.get('problems'):
            raise Violation(
                'C08/audit/%s/concurrent-block' % box['problems'][0][0],
                'after all clients finished (client 0 ran a transaction block): %s\n%s' % (short(box['problems'], 400), '\n'.join('  ' + repr(c) for c in sorted(calls, key=lambda c: c.inv))),
            )
        return {'nontrivial': sched.switches > 0, 'classes': ['mode=' + case['mode']] + (['excluded:swallowed-failure-in-block'] if excluded else [])}


class SwallowedFailure(SubCheck):
    """An operation fails inside a transaction block (its row write raises), the caller handles the exception and the
    block commits.  Enumerated small scope; the orphaned new file is a recorded known finding, anything else is not."""

    name = 'swallowed_failure_in_block'
    exhaustive = True

    def examples(self, tier):
        return 0

    def enumerate(self, tier):
        for method in ('set', 'add'):
            for present in ('absent', 'inline', 'file'):
                for expired in (False, True):
                    for target in ('cache', 'index'):
                        yield {'method': method, 'present': present, 'expired': expired, 'target': target}

    def execute(self, case, env):
        import diskcache

        seams = get_seams(env)
        path = env.scratch.fresh('swf')
        cache = diskcache.Cache(path, disk_min_file_size=64, eviction_policy='none')
        try:
            if case['present'] != 'absent':
                cache.set('k', 'old' if case['present'] == 'inline' else b'O' * 200, expire=5 if case['expired'] else None)
            cache.set('other', b'X' * 200)
            if case['expired']:
                seams.clock.advance(10)
            before = {k: cache.get(k, 'MISSING') for k in ('k', 'other')}
            listed_before = 'k' in list(cache)
            obj = diskcache.Index.fromcache(cache) if case['target'] == 'index' else cache
            with obj.transact():
                try:
                    getattr(cache, case['method'])('k', b'N' * 300, tag=c05.UNBINDABLE)
                except Exception:
                    pass  # the caller handles the failure and goes on
                cache.set('after', 1)
            after = {k: cache.get(k, 'MISSING') for k in ('k', 'other')}
            if after != before or cache.get('after') != 1:
                raise Violation('C08/swallowed-failure-in-block/contents-changed', 'a failed %s inside a committed block changed the contents: %r -> %r' % (case['method'], short(before, 200), short(after, 200)))
            probs = Snapshot(path).problems()
            kinds = sorted({p[0] for p in probs})
            if kinds == ['orphan-file']:
                raise Violation('C08/swallowed-failure-in-block/orphan-new-file', 'the value file written for the failed %s stays behind after the block commits: %s' % (case['method'], short(probs, 300)))
            if kinds:
                raise Violation('C08/swallowed-failure-in-block/%s' % kinds[0], 'after the block committed: %s' % short(probs, 300))
            return {'nontrivial': True, 'classes': ['clean']}
        finally:
            cache.close()
            env.scratch.drop(path)


SUBCHECKS = [FaultedHistories(), Concurrent(), ConcurrentBlocks(), SwallowedFailure()]
