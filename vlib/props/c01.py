"""C01 — stored values come back identical, whatever their type, size or storage path."""

import io
import json
import math
import os
import pickle
import sqlite3

from hypothesis import strategies as st

from ..common import HarnessError, Violation, short
from ..engine import SubCheck
from ..model import same, strict

LEVEL = 'exploration'
RULE = (
    'a value (int of any magnitude, float incl. -0.0/inf/nan/subnormals, str over all code points with a seeded nasty '
    'alphabet CR/LF/NUL/U+0085/U+2028/U+2029/U+FEFF/astral/lone surrogates, bytes, None/bool, nested containers, binary '
    'streams) is constructed to an exact length L in {0,1,T-2..T+2,2T,3T+1} around disk_min_file_size T in '
    '{0,1,8,64,32768}, stored under every pickle protocol with Disk or JSONDisk, and read back through every accessor '
    '(get, [], get(read=True), read(), get(expire_time,tag), pop, push->peek/pull on both sides, peekitem, Deque '
    '[i]/peek/pop/popleft/iteration, Index [k]/pop/popitem/values, FanoutCache.get); oracle = strict equality (type, '
    'IEEE bits with NaN==NaN, code points, recursive); unstorable values must raise and leave the previous value. '
    'non-trivial = the value took the file path, or |L-T| <= 2, or is in a special class (NaN, -0.0, inf, |int| >= 2**63, '
    'contains CR/NUL/U+0085/U+2028/astral/surrogate, empty); distinct by (type, class, storage mode, length bucket, value hash)'
)
ASSUMPTIONS = [
    'JSONDisk values are restricted to those with json.loads(json.dumps(v)) type-identical to v',
    'caches are reused per configuration inside a worker and cleared between values',
    'a file left behind by a rejected value is C08, not C01',
]

THRESHOLDS = [0, 1, 8, 64, 32768]
NASTY = ['\r', '\n', '\r\n', '\x00', '\x85', '\u2028', '\u2029', '\ufeff', '\U0001f600', '\U00010000', 'a\rb', '\r\r\n']
SURR = ['\ud800', '\udfff', 'a\udc80b', '\udcc3\udca9', 'caf\udcc3\udca9 ', '\udce2\udc82\udcac', '\udcff\udcfe', '\udc80']  # incl. the surrogateescape range DC80..DCFF


def lengths(T):
    return sorted({max(0, x) for x in (0, 1, T - 2, T - 1, T, T + 1, T + 2, 2 * T, 3 * T + 1)})


def stretch(seed, n):
    if n == 0:
        return seed[:0]
    if not seed:
        seed = 'x' if isinstance(seed, str) else b'x'
    reps = n // len(seed) + 1
    return (seed * reps)[:n]


def build(spec, protocol):
    """Return (value, stream_content or None, bad_kind or None)."""
    kind = spec[0]
    if kind == 'val':
        return spec[1], None, None
    if kind == 'str':
        return stretch(spec[1], spec[2]), None, None
    if kind == 'bytes':
        return stretch(spec[1], spec[2]), None, None
    if kind == 'pickle':
        seedv, L = spec[1], spec[2]
        base = len(pickle.dumps([seedv, b''], protocol=protocol))
        pad = max(0, L - base - 3)
        obj = [seedv, b'\x00' * pad]
        for _ in range(12):
            n = len(pickle.dumps(obj, protocol=protocol))
            if n == L or pad == 0 and n > L:
                break
            pad = max(0, pad + (L - n))
            obj = [seedv, b'\x00' * pad]
        return obj, None, None
    if kind == 'stream':
        content = stretch(spec[1], spec[2])
        return io.BytesIO(content), content, None
    if kind == 'bad':
        what = spec[1]
        if what == 'surrogate':
            return stretch('ab\ud800c', max(spec[2], 3)), None, 'surrogate'
        if what == 'unpicklable':
            return [lambda: None], None, 'unpicklable'
        if what == 'stream-fail':

            class Failing:
                def __init__(self, first):
                    self.first = first
                    self.n = 0

                def read(self, size=-1):
                    self.n += 1
                    if self.n == 1:
                        return self.first
                    raise IOError('stream failed on second read')

            return Failing(b'z' * max(spec[2], 1)), None, 'stream-fail'
    raise HarnessError('bad spec %r' % (spec,))


def special_classes(v):
    out = []
    t = type(v)
    if t is float:
        if v != v:
            out.append('nan')
        elif math.isinf(v):
            out.append('inf')
        elif v == 0 and math.copysign(1, v) < 0:
            out.append('-0.0')
    elif t is int and abs(v) >= 2**63:
        out.append('bigint')
    elif t is str:
        if v == '':
            out.append('empty')
        for ch, name in (('\r', 'CR'), ('\x00', 'NUL'), ('\x85', 'U+0085'), ('\u2028', 'U+2028')):
            if ch in v:
                out.append(name)
        if any(ord(c) > 0xFFFF for c in v[:64]):
            out.append('astral')
        if any(0xD800 <= ord(c) <= 0xDFFF for c in v[:64]):
            out.append('surrogate')
    elif t is bytes and v == b'':
        out.append('empty')
    return out


def json_ok(v):
    try:
        return strict(json.loads(json.dumps(v))) == strict(v)
    except Exception:
        return False


scalars = st.one_of(
    st.none(),
    st.booleans(),
    st.integers(-(2**70), 2**70),
    st.sampled_from([0, 1, -1, 2**63, 2**63 - 1, -(2**63), -(2**63) - 1, 2**64, 2**2000, -(2**2000)]),
    st.floats(allow_nan=True, allow_infinity=True),
    st.sampled_from([float('nan'), -0.0, 0.0, float('inf'), float('-inf'), 5e-324, 2.0**53, 2.0**63, 1e308, -1.5]),
    st.text(max_size=6),
    st.sampled_from(NASTY),
    st.binary(max_size=6),
)

containers = st.recursive(
    scalars,
    lambda inner: st.one_of(
        st.lists(inner, max_size=4),
        st.lists(inner, max_size=3).map(tuple),
        st.dictionaries(st.one_of(st.text(max_size=3), st.integers(-5, 5)), inner, max_size=3),
        st.frozensets(st.one_of(st.integers(-5, 5), st.text(max_size=2)), max_size=3),
        st.sets(st.integers(-5, 5), max_size=3),
    ),
    max_leaves=8,
)

json_scalars = st.one_of(
    st.none(),
    st.booleans(),
    st.integers(-(2**70), 2**70),
    st.floats(allow_nan=False, allow_infinity=False),
    st.text(max_size=6),
    st.sampled_from(NASTY),
)
json_values = st.recursive(
    json_scalars,
    lambda inner: st.one_of(st.lists(inner, max_size=4), st.dictionaries(st.text(max_size=3), inner, max_size=3)),
    max_leaves=8,
)

text_seed = st.one_of(
    st.text(alphabet='abcxyz', min_size=1, max_size=5),
    st.lists(st.sampled_from(NASTY + ['a', 'b', 'é', '中']), min_size=1, max_size=5).map(''.join),
    st.text(alphabet=st.characters(exclude_categories=()), min_size=1, max_size=5),
)


@st.composite
def case_strategy(draw, tier):
    T = draw(st.sampled_from(THRESHOLDS))
    disk = draw(st.sampled_from(['Disk', 'Disk', 'Disk', 'JSONDisk']))
    cfg = {'T': T, 'protocol': draw(st.integers(0, pickle.HIGHEST_PROTOCOL)), 'disk': disk}
    if disk == 'JSONDisk':
        cfg['compress'] = draw(st.integers(0, 9))
    L = draw(st.sampled_from(lengths(T)))
    if disk == 'JSONDisk':
        spec = draw(
            st.one_of(
                json_values.map(lambda v: ('val', v)),
                st.tuples(st.just('str'), text_seed, st.just(L)),
                st.tuples(st.just('stream'), st.binary(min_size=1, max_size=4), st.just(L)),
            )
        )
    else:
        extra = []
        if tier != 'quick':
            extra = [st.tuples(st.just('stream'), st.binary(min_size=1, max_size=4), st.sampled_from([2**22 - 1, 2**22, 2**22 + 1]))]
        spec = draw(
            st.one_of(
                containers.map(lambda v: ('val', v)),
                scalars.map(lambda v: ('val', v)),
                st.tuples(st.just('str'), text_seed, st.just(L)),
                st.tuples(st.just('str'), text_seed, st.just(L)),
                st.tuples(st.just('bytes'), st.binary(min_size=1, max_size=4), st.just(L)),
                st.tuples(st.just('pickle'), scalars, st.just(L)),
                st.tuples(st.just('stream'), st.binary(min_size=1, max_size=4), st.just(L)),
                st.tuples(st.just('bad'), st.sampled_from(['surrogate', 'unpicklable', 'stream-fail']), st.just(L)),
                st.tuples(st.just('str'), st.sampled_from(SURR), st.just(L)),
                *extra,
            )
        )
    case = {'cfg': cfg, 'spec': spec}
    if disk == 'JSONDisk' and draw(st.integers(0, 9)) == 0:
        case['probe'] = 'jsondisk-deque-index'
    return case


ACCESSORS = [
    'get', 'getitem', 'get_read', 'read', 'get_et_tag', 'pop', 'push_pull_front', 'push_pull_back', 'push_peek',
    'peekitem', 'deque', 'index', 'fanout',
]


def get_objs(env, cfg):
    import diskcache

    key = ('c01', json.dumps(cfg, sort_keys=True))
    objs = env.cache.get(key)
    if objs is None:
        root = env.scratch.fresh('c01')
        disk = getattr(diskcache, cfg['disk'])
        kw = {'disk_min_file_size': cfg['T'], 'disk_pickle_protocol': cfg['protocol'], 'eviction_policy': 'none'}
        if cfg['disk'] == 'JSONDisk':
            kw['disk_compress_level'] = cfg.get('compress', 1)
        cache = diskcache.Cache(os.path.join(root, 'c'), disk=disk, **kw)
        dq = diskcache.Deque.fromcache(diskcache.Cache(os.path.join(root, 'd'), disk=disk, **kw))
        ix = diskcache.Index.fromcache(diskcache.Cache(os.path.join(root, 'i'), disk=disk, **kw))
        fc = diskcache.FanoutCache(os.path.join(root, 'f'), shards=2, disk=disk, **kw)
        objs = env.cache[key] = _Objs(cache, dq, ix, fc, root)
    return objs


class _Objs:
    def __init__(self, cache, dq, ix, fc, root):
        self.cache, self.dq, self.ix, self.fc, self.root = cache, dq, ix, fc, root

    def close(self):
        for o in (self.cache, self.dq.cache, self.ix.cache, self.fc):
            try:
                o.close()
            except Exception:
                pass


def materialize(v):
    if hasattr(v, 'read') and not isinstance(v, (bytes, str)):
        try:
            return v.read()
        finally:
            v.close()
    return v


def near_twin(v):
    t = type(v)
    try:
        if t is bool:
            return int(v)
        if t is int:
            return float(v) if abs(v) < 2**53 else 'prev'
        if t is float:
            if v == 0:
                return -v
            if v == v and abs(v) < 2**53 and v.is_integer():
                return int(v)
        if t is str:
            return v.encode('utf-8')
        if t is bytes:
            return v.decode('ascii')
    except Exception:
        pass
    return 'prev'


class RoundTrip(SubCheck):
    name = 'roundtrip'

    def examples(self, tier):
        return 250 if tier == 'quick' else 6000

    def strategy(self, tier):
        return case_strategy(tier)

    def execute(self, case, env):
        cfg, spec = case['cfg'], case['spec']
        o = get_objs(env, cfg)
        c = o.cache
        is_stream = spec[0] == 'stream' or (spec[0] == 'bad' and spec[1] == 'stream-fail')
        value, content, bad = build(spec, cfg['protocol'])
        if cfg['disk'] == 'JSONDisk' and not is_stream and not json_ok(value):
            return {'nontrivial': False, 'classes': ['skipped-not-json']}
        expected = content if content is not None else value
        classes = set()
        mode = {'m': 'inline'}

        def fresh_value():
            v, _, _ = build(spec, cfg['protocol'])
            return v

        def sig(accessor):
            t = type(expected).__name__
            if type(expected) is str and mode['m'] == 'file' and '\r' in expected:
                return 'C01/roundtrip/text-file/newline'
            if type(expected) is float and expected != expected:
                return 'C01/roundtrip/float/nan'
            return 'C01/roundtrip/%s/%s/%s' % (t, mode['m'], accessor)

        def check(accessor, got):
            got = materialize(got)
            if not same(got, expected):
                raise Violation(
                    sig(accessor),
                    'stored %s (%s, len %s) under %r; %s returned %s'
                    % (short(expected, 120), type(expected).__name__, _len(expected), cfg, accessor, short(got, 120)),
                )

        def store_failed(exc, where):
            # a value that cannot be stored is rejected with an exception, never silently altered
            classes.add('rejected:' + type(exc).__name__)

        try:
            # --- Cache accessors -------------------------------------------------------------
            c.clear()
            # the key already holds something: where there is one, a value that compares equal to the new one but is another
            # value (1 for 1.0, 0.0 for -0.0, True for 1, text for its bytes) - the new value must replace it all the same
            prev = near_twin(expected)
            if cfg['disk'] == 'JSONDisk' and not json_ok(prev):
                prev = 'prev'
            c.set('k', prev)
            try:
                c.set('k', fresh_value(), read=is_stream, tag='tg', expire=None)
            except Exception as exc:
                store_failed(exc, 'set')
                if not same(c.get('k'), prev):
                    raise Violation('C01/rejected-but-altered', 'set(%s) raised %r but key now holds %s' % (short(expected), exc, short(c.get('k'))))
                return {'nontrivial': True, 'classes': sorted(classes)}
            if bad == 'stream-fail':
                raise Violation('C01/stream-error-swallowed', 'a stream whose second read() raises was stored without error under %r' % (cfg,))
            con = sqlite3.connect(os.path.join(c.directory, 'cache.db'))
            try:
                rows = con.execute('SELECT filename, mode FROM Cache').fetchall()
            finally:
                con.close()
            if rows and rows[0][0] is not None:
                mode['m'] = 'file'
            classes.add('mode=%s/%s' % (mode['m'], rows[0][1] if rows else '?'))
            jd = cfg['disk'] == 'JSONDisk'
            # JSONDisk: read=True bypasses the JSON layer on both sides (store and fetch), so a value stored as
            # an object is only read back as an object and a value stored as a stream only as a stream.
            as_obj = not (jd and is_stream)
            as_raw = not (jd and not is_stream)
            if as_obj:
                check('get', c.get('k'))
                check('getitem', c['k'])
                r = c.get('k', expire_time=True, tag=True)
                check('get_et_tag', r[0])
                if r[1] is not None or r[2] != 'tg':
                    raise Violation('C01/metadata', 'get(expire_time, tag) returned %s' % short(r[1:]))
                check('peekitem', c.peekitem()[1])
            if as_raw:
                check('get_read', c.get('k', read=True))
                check('read', c.read('k'))
            if as_obj:
                check('pop', c.pop('k'))
                if 'k' in c:
                    raise Violation('C01/pop-left-key', 'pop did not remove the key')
                for side in ('front', 'back'):
                    key = c.push(fresh_value(), read=is_stream, side=side)
                    check('push_peek_' + side, c.peek(side=side)[1])
                    if not jd:  # queue keys are raw ints; JSONDisk encodes lookup keys, so c[key] is not its contract
                        check('push_getitem', c[key])
                    check('push_pull_' + side, c.pull(side=side)[1])
            # --- FanoutCache ---------------------------------------------------------------------
            o.fc.clear()
            o.fc.set('k', fresh_value(), read=is_stream)
            if as_obj:
                check('fanout.get', o.fc.get('k'))
                check('fanout.getitem', o.fc['k'])
            if as_raw:
                check('fanout.read', o.fc.read('k'))
            # the sharded cache passes every argument of add() on as well
            o.fc.delete('k')
            if o.fc.add('k', fresh_value(), read=is_stream, tag='tg') is not True:
                raise Violation('C01/fanout-add-refused', 'FanoutCache.add on an absent key returned False')
            if as_obj:
                check('fanout.add->get', o.fc.get('k'))
                r = o.fc.get('k', tag=True)
                check('fanout.add->get(tag)', r[0])
                if r[1] != 'tg':
                    raise Violation('C01/metadata', 'FanoutCache.add lost the tag: %r' % (r[1],))
                check('fanout.add->pop', o.fc.pop('k'))
            if as_raw and 'k' in o.fc:
                check('fanout.add->read', o.fc.read('k'))
            if not is_stream:
                # --- Deque -----------------------------------------------------------------------
                dq = o.dq
                dq.clear()
                dq.append(fresh_value())
                dq.appendleft(fresh_value())
                if jd and not case.get('probe'):
                    # known finding C01/jsondisk-queue-keys: queue keys bypass JSONDisk.put, so positional access
                    # and iteration of a Deque on JSONDisk raise; excluded by construction and counted
                    classes.add('excluded:jsondisk-queue-keys')
                else:
                    try:
                        check('deque[0]', dq[0])
                        check('deque[-1]', dq[-1])
                        for got in list(dq):
                            check('deque.iter', got)
                    except Violation:
                        raise
                    except Exception as exc:
                        if jd:
                            raise Violation(
                                'C01/jsondisk-queue-keys/deque-index',
                                'Deque on JSONDisk: append(%s) succeeded, indexing/iteration raised %r' % (short(expected, 80), exc),
                            )
                        raise
                check('deque.peek', dq.peek())
                check('deque.peekleft', dq.peekleft())
                check('deque.pop', dq.pop())
                check('deque.popleft', dq.popleft())
                # --- Index -----------------------------------------------------------------------
                ix = o.ix
                ix.clear()
                ix['k'] = fresh_value()
                ix['j'] = fresh_value()
                check('index[k]', ix['k'])
                for got in ix.values():
                    check('index.values', got)
                check('index.pop', ix.pop('k'))
                check('index.popitem', ix.popitem()[1])
        except Violation:
            raise
        except Exception as exc:
            # an accessor raised on a value that had been stored successfully
            raise Violation(
                'C01/accessor-raised/%s' % type(exc).__name__,
                'stored %s under %r, then an accessor raised %r' % (short(expected, 120), cfg, exc),
            )
        T = cfg['T']
        L = _len(expected)
        specials = special_classes(expected)
        for s in specials:
            classes.add('special:' + s)
        near = isinstance(L, int) and abs(L - T) <= 2
        if near:
            classes.add('near-threshold')
        classes.add('type=' + type(expected).__name__)
        classes.add('disk=' + cfg['disk'])
        nontrivial = mode['m'] == 'file' or near or bool(specials)
        return {'nontrivial': nontrivial, 'classes': sorted(classes)}

    def describe(self, case):
        from ..common import enc

        return enc({'cfg': case['cfg'], 'spec': case['spec']})


def _len(v):
    try:
        return len(v)
    except TypeError:
        return None


class FlakyStream:
    """A binary source whose n-th read() raises once and then carries on."""

    def __init__(self, content, chunk, fail_at, exc):
        self.content, self.chunk, self.fail_at, self.exc = content, chunk, fail_at, exc
        self.pos = 0
        self.reads = 0
        self.failed = False

    def read(self, size=-1):
        self.reads += 1
        if self.reads == self.fail_at and not self.failed:
            self.failed = True
            raise self.exc('transient failure of the source stream')
        out = self.content[self.pos:self.pos + self.chunk]
        self.pos += len(out)
        return out


class FaultedStore(SubCheck):
    """One transient failure while the value file is being written: the value is rejected or stored intact, never altered."""

    name = 'store_with_transient_fault'

    def examples(self, tier):
        return 150 if tier == 'quick' else 4000

    def strategy(self, tier):
        lines = st.lists(st.sampled_from([b'line-one', b'x', b'', b'0123456789' * 5]), min_size=1, max_size=8).map(lambda ls: b'\n'.join(ls))
        return st.fixed_dictionaries(
            {
                'T': st.sampled_from([0, 1, 8, 64]),
                'kind': st.sampled_from(['bytes', 'text', 'pickle', 'stream', 'stream']),
                'content': lines,
                'chunk': st.sampled_from([3, 16, 1000]),
                'fault': st.tuples(st.sampled_from(['write', 'write', 'source-read', 'open']), st.integers(1, 6), st.sampled_from(['OSError', 'TimeoutError', 'ENOSPC'])),
                'accessor': st.sampled_from(['set', 'add', 'push']),
            }
        )

    def execute(self, case, env):
        import errno

        import diskcache

        from ..conc import get_seams
        from ..seams import Controller

        seams = get_seams(env)
        path = env.scratch.fresh('c01f')
        cache = diskcache.Cache(path, disk_min_file_size=case['T'])
        content = case['content']
        kind = case['kind']
        where, nth, excname = case['fault']
        exc = {'OSError': OSError, 'TimeoutError': TimeoutError, 'ENOSPC': lambda *a: OSError(errno.ENOSPC, 'No space left on device')}[excname]
        fired = [False]
        writes = [0]

        class Inject(Controller):
            def event(self, kind_, label, con=None):
                if kind_ == 'write' and where == 'write':
                    writes[0] += 1
                    if writes[0] == nth and not fired[0]:
                        fired[0] = True
                        raise exc('transient write failure')
                if kind_ == 'open' and where == 'open' and 'x' in label and not fired[0]:
                    fired[0] = True
                    raise exc('transient open failure')

        read = False
        if kind == 'bytes':
            value, expected = content, content
        elif kind == 'text':
            value = expected = content.decode('ascii')
        elif kind == 'pickle':
            value = expected = [content, {'k': content}]
        else:
            stream = FlakyStream(content, case['chunk'], nth if where == 'source-read' else -1, exc if where == 'source-read' else OSError)
            value, expected, read = stream, content, True
        try:
            cache.set('k', 'prev')
            seams.ctl = Inject()
            try:
                try:
                    if case['accessor'] == 'set':
                        cache.set('k', value, read=read)
                        key = 'k'
                    elif case['accessor'] == 'add':
                        cache.delete('k')
                        cache.add('k', value, read=read)
                        key = 'k'
                    else:
                        key = cache.push(value, read=read)
                    raised = None
                except Exception as e:
                    raised = e
            finally:
                seams.ctl = Controller()
            fault_fired = fired[0] or (read and value.failed)
            if raised is not None:
                if not fault_fired:
                    raise Violation('C01/store-raised-without-fault/%s' % type(raised).__name__, 'storing %s raised %r although no fault was injected' % (short(expected, 80), raised))
                if case['accessor'] == 'set' and not same(cache.get('k'), 'prev'):
                    raise Violation('C01/rejected-but-altered', 'set raised %r but the key now holds %s' % (raised, short(cache.get('k'), 80)))
                return {'nontrivial': True, 'classes': ['rejected', 'fault=' + where]}
            try:
                got = cache.get(key, 'MISSING')
            except Exception as e:
                got = 'lookup raised %r' % (e,)
            if not same(got, expected):
                raise Violation(
                    'C01/silently-altered/%s/%s' % (kind, where),
                    'a transient %s at %s #%d did not make the store fail, and the value came back altered: stored %s (len %d), got %s (len %s)\nT=%d accessor=%s'
                    % (excname, where, nth, short(expected, 80), len(expected), short(got, 80), len(got) if hasattr(got, '__len__') else '-', case['T'], case['accessor']),
                )
            return {'nontrivial': fault_fired, 'classes': ['stored-intact', 'fault=' + where] + (['fault-fired'] if fault_fired else [])}
        finally:
            seams.ctl = Controller()
            cache.close()
            env.scratch.drop(path)


from ..fuzz import FuzzCampaign  # noqa: E402

SUBCHECKS = [RoundTrip(), FaultedStore()]
SUBCHECKS.append(FuzzCampaign('c01', SUBCHECKS[0], runs_quick=1500, runs_thorough=40000))
