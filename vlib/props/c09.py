"""C09 — eviction starts only at the size limit and follows the configured policy order."""

import sqlite3

from hypothesis import strategies as st

from ..cacheops import DFLT, POLICIES, Runner, mkval
from ..common import HarnessError, Violation, short
from ..engine import SubCheck
from ..model import CacheModel, ident
from ..seams import Controller, Seams
from . import c03

LEVEL = 'exploration'
RULE = (
    'histories of writes (file-backed 1-16 KiB bytes, file-backed non-ASCII text and inline values), reads (get, [], incr), non-reads (touch, in), clock '
    'steps, expiring items and cull() under policy x cull_limit in {0,1,2,10} x size_limit in {40k,64k,100k}; after every '
    'call the set of vanished keys must be explained: expired, or evicted with the volume observed at the SQL seam >= '
    'size_limit, policy != none, at most cull_limit per write, and policy-minimal against every survivor (model keeps '
    'store sequence, store-or-read sequence, read count); cull(): no expired item left, policy-ordered prefix, ends '
    'with volume <= limit (volume() and the independently measured database pages + value files) or empty, returns the number removed. non-trivial = >= 1 policy eviction whose victim set '
    'differs from plain insertion order (a read or re-store changed the order), or a cull() that removed both expired '
    'and live items; distinct by SHA-1 of the canonical case'
)
ASSUMPTIONS = [
    'the volume the cull compared is observed on the same connection right before PRAGMA page_count (seam self-test)',
    'LFU ties are free; LRS/LRU keys are strictly ordered because the virtual clock is strictly increasing',
    'one write may also remove expired items; together with evictions at most cull_limit',
]

SIZE_LIMITS = [40000, 65536, 100000]


class VolumeObserver(Controller):
    def __init__(self):
        self.obs = []  # (db path, volume)
        self.busy = False

    def event(self, kind, label, con=None):
        if kind != 'sql' or self.busy or con is None:
            return
        if label.lstrip().upper().startswith('PRAGMA PAGE_COUNT'):
            self.busy = True
            try:
                ex = sqlite3.Connection.execute
                ((pc,),) = ex(con, 'PRAGMA page_count').fetchall()
                ((ps,),) = ex(con, 'PRAGMA page_size').fetchall()
                ((size,),) = ex(con, 'SELECT value FROM Settings WHERE key = "size"').fetchall()
                rows = ex(con, 'PRAGMA database_list').fetchall()
                self.obs.append((rows[0][2], pc * ps + size))
            finally:
                self.busy = False


def get_seams(env):
    seams = env.cache.get('seams')
    if seams is None:
        import diskcache.core as core
        import diskcache.fanout as fanout

        seams = Seams()
        seams.install_clock([core, fanout])
        seams.install_io(core)
        env.cache['seams'] = seams
    seams.clock.adv = 0.0
    seams.clock.reads = 0
    seams.clock.frozen = False
    seams.ctl = VolumeObserver()
    return seams


class EvictRunner(Runner):
    def __init__(self, *a, **k):
        Runner.__init__(self, *a, **k)
        self.obs = None
        self.size_limit = self.cfg['size_limit']
        self.policy = self.cfg['eviction_policy']
        self.evictions = 0
        self.order_changed = 0
        self.cull_mixed = 0

    def step(self, op):
        self.obs.obs.clear()
        Runner.step(self, op)

    def _check_minimal(self, op, evicted, what, gone=()):
        gone = set(gone)
        survivors = [it for i, it in self.m.items.items() if i not in gone]
        ev = set(id(e) for e in evicted)
        for e in evicted:
            ke = self.m.policy_key(e)
            for s in survivors:
                if id(s) in ev:
                    continue
                if ke > self.m.policy_key(s):
                    self.fail(
                        'eviction-order',
                        '%s: op %s evicted %r (policy key %r) but kept %r (policy key %r) under %s'
                        % (what, short(op), e, ke, s, self.m.policy_key(s), self.policy),
                    )
        # was the victim set different from plain insertion order?
        order = list(self.m.items.values())
        naive = set(id(x) for x in order[: len(evicted)])
        if naive != ev:
            self.order_changed += 1

    def explain_evictions(self, op, unexplained, missing, t0, t1):
        evicted = [self.m.items[i] for i in unexplained]
        if self.policy == 'none':
            self.fail('evicted-under-policy-none', 'op %s removed live items %s' % (short(op), short(evicted)))
        vols = [v for _, v in self.obs.obs]
        if not vols or max(vols) < self.size_limit:
            self.fail(
                'evicted-below-limit',
                'op %s evicted %s; volumes observed while culling: %r, size_limit %d'
                % (short(op), short(evicted), vols, self.size_limit),
            )
        self._check_minimal(op, evicted, 'write', missing)
        self.evictions += len(evicted)
        self.classes.add('policy-eviction')

    def op_cull(self, op, t0):
        real = self.call(self.c.cull)
        t1 = self.clock.peek()
        vols = [v for _, v in self.obs.obs]
        if real[0] != 'ok':
            self.fail('cull/exception', 'cull() raised %s' % real[1])
        realkeys = {ident(k) for k in self.real_keys()}
        missing = [i for i in self.m.items if i not in realkeys]
        extra = [i for i in realkeys if i not in self.m.items]
        if extra:
            self.fail('cull/contents', 'cull() made keys appear: %s' % short(extra))
        expired = [i for i in self.m.items if not self.m.live(self.m.items[i], t0, t1)]
        left = [i for i in expired if i in realkeys]
        if left:
            self.fail('cull/expired-left', 'cull() left %d expired item(s), e.g. %r' % (len(left), self.m.items[left[0]]))
        evicted = [self.m.items[i] for i in missing if i not in set(expired)]
        if evicted:
            if self.policy == 'none':
                self.fail('evicted-under-policy-none', 'cull() removed live items %s' % short(evicted))
            over = [v for v in vols if v > self.size_limit]
            if not over:
                self.fail('evicted-below-limit', 'cull() evicted %d items; observed volumes %r, limit %d' % (len(evicted), vols, self.size_limit))
            if len(evicted) > 10 * len(over):
                self.fail('cull/over-eviction', 'cull() evicted %d items in %d rounds above the limit' % (len(evicted), len(over)))
            for i in expired:
                if i in self.m.items:
                    pass
            # judge order against survivors with the expired ones already gone
            for i in expired:
                del self.m.items[i]
            self._check_minimal(op, evicted, 'cull()')
            self.classes.add('cull-evicted')
            if expired:
                self.cull_mixed += 1
        else:
            for i in expired:
                del self.m.items[i]
        for e in evicted:
            del self.m.items[ident(e.key)]
        if real[1] != len(missing):
            raise Violation(
                'C09/cull-return/%s' % ('policy-none' if self.policy == 'none' else 'other'),
                'cull() returned %r but removed %d item(s) (%d expired, %d evicted) under policy %s\ntail: %s'
                % (real[1], len(missing), len(expired), len(evicted), self.policy, short(self.trace[-6:], 500)),
            )
        vol = self.c.volume()
        # measured independently of the cache's own accounting: database pages + bytes of the value files on disk
        foot = footprint(self.c.directory)
        if self.policy != 'none' and max(vol, foot) > self.size_limit and len(self.m.items) > 0:
            self.fail('cull/still-over-limit', 'after cull(): volume() %d, measured footprint %d > size_limit %d with %d items' % (vol, foot, self.size_limit, len(self.m.items)))
        if vol != foot:
            self.fail('volume-accounting', 'after cull(): volume() reports %d, database pages + value files on disk occupy %d' % (vol, foot))


def footprint(directory):
    import os

    con = sqlite3.connect(os.path.join(directory, 'cache.db'))
    try:
        ((pc,),) = con.execute('PRAGMA page_count').fetchall()
        ((ps,),) = con.execute('PRAGMA page_size').fetchall()
    finally:
        con.close()
    total = pc * ps
    for root, _, files in os.walk(directory):
        total += sum(os.path.getsize(os.path.join(root, f)) for f in files if f.endswith('.val'))
    return total


def ops(nkeys=24):
    k = st.sampled_from(['k%d' % i for i in range(nkeys)])
    filev = st.tuples(st.just('B'), st.integers(0, 255), st.sampled_from([1024, 2048, 4096, 6000, 8192, 12000, 16384]))
    # file-backed text whose UTF-8 encoding is 2-4 times its length in characters: the footprint is bytes, not characters
    textv = st.tuples(st.just('U'), st.integers(0, 2), st.sampled_from([1024, 2048, 4096]))
    v = st.one_of(filev, filev, filev, textv, st.tuples(st.just('i'), st.integers(0, 9)), st.tuples(st.just('S'), st.integers(0, 25), st.just(300)))
    ttl = st.sampled_from([None, None, None, 5, 300])
    return st.one_of(
        st.tuples(st.just('set'), k, v, ttl, st.none()),
        st.tuples(st.just('set'), k, v, ttl, st.none()),
        st.tuples(st.just('set'), k, v, ttl, st.none()),
        st.tuples(st.just('set'), k, v, ttl, st.none()),
        st.tuples(st.just('add'), k, v, ttl, st.none()),
        st.tuples(st.just('get'), k, st.just(DFLT), st.booleans(), st.just(False), st.just(False)),
        st.tuples(st.just('get'), k, st.just(DFLT), st.just(False), st.just(False), st.just(False)),
        st.tuples(st.just('getitem'), k),
        st.tuples(st.just('incr'), k, st.just(1), st.just(0)),
        st.tuples(st.just('touch'), k, ttl),
        st.tuples(st.just('in'), k),
        st.tuples(st.just('advance'), st.sampled_from([1, 10, 400])),
        st.tuples(st.just('cull')),
    )


def run(env, cfg, seq):
    import diskcache

    seams = get_seams(env)
    path = env.scratch.fresh()
    cache = diskcache.Cache(path, **cfg)
    try:
        model = CacheModel(statistics=False, policy=cfg['eviction_policy'])
        r = EvictRunner(cache, model, seams.clock, cfg, pid='C09')
        r.obs = seams.ctl
        r.evicting = True
        r.run(seq)
        r.step(('iter',))
        return r
    finally:
        cache.close()
        env.scratch.drop(path)


class Histories(SubCheck):
    name = 'eviction_histories'

    def examples(self, tier):
        return 300 if tier == 'quick' else 4000

    def strategy(self, tier):
        steps = 60 if tier == 'quick' else 150

        @st.composite
        def case(draw):
            # few keys: items are read and re-stored repeatedly before they are evicted (matters for LFU/LRU bookkeeping, so
            # those policies are drawn more often then)
            nkeys = draw(st.sampled_from([24, 24, 7, 7]))
            cfg = {
                'eviction_policy': draw(st.sampled_from(POLICIES if nkeys > 7 else ['least-frequently-used', 'least-frequently-used', 'least-recently-used'] + list(POLICIES))),
                'cull_limit': draw(st.sampled_from([0, 1, 2, 10])),
                'size_limit': draw(st.sampled_from(SIZE_LIMITS)),
                'disk_min_file_size': 1024,
            }
            seq = draw(st.lists(ops(nkeys), min_size=15, max_size=steps))
            return {'cfg': cfg, 'ops': seq}

        return case()

    def execute(self, case, env):
        r = run(env, case['cfg'], case['ops'])
        classes = sorted(r.classes) + ['policy=' + case['cfg']['eviction_policy']]
        if r.order_changed:
            classes.append('victims-differ-from-insertion-order')
        if r.cull_mixed:
            classes.append('cull-expired-and-live')
        return {'nontrivial': bool(r.order_changed or r.cull_mixed), 'classes': classes}

    def selftest(self, env):
        import diskcache

        seams = get_seams(env)
        path = env.scratch.fresh('self')
        c = diskcache.Cache(path, size_limit=40000, disk_min_file_size=1024)
        try:
            c.set('a', b'x' * 5000)
            seams.ctl.obs.clear()
            c.volume()
            if not seams.ctl.obs:
                raise HarnessError('SQL seam disconnected: a write observed no PRAGMA page_count')
            path_seen, vol = seams.ctl.obs[-1]
            if vol < 5000 or vol > 200000:
                raise HarnessError('implausible observed volume %r' % vol)
        finally:
            c.close()
            env.scratch.drop(path)


class Fanout(SubCheck):
    """Per shard: limit = total / shards (persisted), trigger per shard."""

    name = 'fanout_shards'

    def examples(self, tier):
        return 40 if tier == 'quick' else 600

    def strategy(self, tier):
        @st.composite
        def case(draw):
            shards = draw(st.sampled_from([2, 3]))
            cfg = {
                'eviction_policy': draw(st.sampled_from(POLICIES[:3])),
                'cull_limit': draw(st.sampled_from([1, 2, 10])),
                'size_limit': draw(st.sampled_from([40000, 65536, 100000])) * shards,
                'disk_min_file_size': 1024,
            }
            n = draw(st.integers(10, 60))
            sizes = draw(st.lists(st.sampled_from([1024, 2048, 4096, 8192]), min_size=n, max_size=n))
            keys = draw(st.lists(st.integers(0, 40), min_size=n, max_size=n))
            return {'shards': shards, 'cfg': cfg, 'sizes': sizes, 'keys': keys}

        return case()

    def execute(self, case, env):
        import os

        import diskcache

        seams = get_seams(env)
        path = env.scratch.fresh()
        shards = case['shards']
        cfg = case['cfg']
        fc = diskcache.FanoutCache(path, shards=shards, **cfg)
        per = cfg['size_limit'] / shards
        evictions = 0
        try:
            for i in range(shards):
                con = sqlite3.connect(os.path.join(path, '%03d' % i, 'cache.db'))
                ((lim,),) = con.execute('SELECT value FROM Settings WHERE key = "size_limit"').fetchall()
                con.close()
                if lim != per:
                    raise Violation('C09/fanout/shard-limit', 'shard %d persisted size_limit %r, expected total/shards = %r' % (i, lim, per))
            present = {}
            for key, size in zip(case['keys'], case['sizes']):
                seams.ctl.obs.clear()
                before = {i: set(fc._shards[i]) for i in range(shards)}
                fc.set(key, b'v' * size)
                for i in range(shards):
                    after = set(fc._shards[i])
                    gone = before[i] - after
                    if gone:
                        evictions += len(gone)
                        db = os.path.join(path, '%03d' % i, 'cache.db')
                        vols = [v for p, v in seams.ctl.obs if os.path.realpath(p) == os.path.realpath(db)]
                        if not vols or max(vols) < per:
                            raise Violation(
                                'C09/fanout/evicted-below-shard-limit',
                                'shard %d evicted %r; observed shard volumes %r, per-shard limit %r' % (i, sorted(gone), vols, per),
                            )
                        if len(gone) > cfg['cull_limit']:
                            raise Violation('C09/fanout/over-limit', 'shard %d removed %d items in one write' % (i, len(gone)))
            return {'nontrivial': evictions > 0, 'classes': ['shards=%d' % shards] + (['evicted'] if evictions else [])}
        finally:
            fc.close()
            env.scratch.drop(path)


SUBCHECKS = [Histories(), Fanout()]
