"""C20 — Averager counts every add once; throttle never exceeds its rate."""

import threading

from hypothesis import strategies as st

from ..common import HarnessError, Violation, short
from ..conc import fmt, get_seams, io_selftest, mark_interleaved, run_scheduled
from ..engine import SubCheck
from ..sched import linearize

LEVEL = 'exploration'
RULE = (
    'Averager: 2-3 clients x add(v)/get()/pop() with integer v (sums exact in any order) on Cache and FanoutCache under '
    'generated statement-level schedules; oracle = linearizability against (total, count). throttle: count in 1..5, '
    'seconds in {0.5,1,2,7}, 1-3 callers whose arrival gaps are drawn from {0, tiny, 1/rate, long idle}, run through the '
    'documented time_func/sleep_func parameters on a discrete-event virtual clock (a sleeping caller resumes when virtual '
    'time reaches its wake-up; ties resolved by a generated priority); oracle = for start instants s_1<=...<=s_n and all '
    'i<=j: j-i+1 <= count + rate*(s_j-s_i) + 1e-6, and every call starts within a bounded number of wake-ups. '
    'non-trivial: Averager = two adds with interleaved statements or a pop between adds; throttle = a burst after idle > '
    'seconds, or >= 2 callers contending for one token; distinct by SHA-1 of the case'
)
ASSUMPTIONS = [
    'throttle callers switch only at sleep_func and call boundaries (the token update itself is one transaction; its atomicity is C06/C05)',
    'liveness is bounded: 12 wake-ups per call per caller',
]


# ---------------------------------------------------------------------------------------------
# Averager


def avg_op(client, idx):
    return st.one_of(
        st.tuples(st.just('add'), st.integers(-5, 20)),
        st.tuples(st.just('add'), st.integers(-5, 20)),
        st.tuples(st.just('get')),
        st.tuples(st.just('pop')),
    )


@st.composite
def avg_case(draw):
    n = draw(st.integers(2, 3))
    progs = [[draw(avg_op(c, i)) for i in range(draw(st.integers(1, 4)))] for c in range(n)]
    return {
        'cache': draw(st.sampled_from(['cache', 'cache', 'fanout'])),
        'mode': draw(st.sampled_from(['own', 'shared'])),
        'init': draw(st.lists(st.integers(0, 9), max_size=2)),
        'progs': progs,
        'schedule': draw(st.lists(st.tuples(st.integers(0, n - 1), st.one_of(st.integers(1, 10), st.sampled_from([14, 20, 30]))), max_size=14)),
    }


def avg_do(av, op):
    try:
        if op[0] == 'add':
            return ('ok', av.add(op[1]))
        if op[0] == 'get':
            return ('ok', av.get())
        if op[0] == 'pop':
            return ('ok', av.pop())
    except Exception as exc:
        return ('exc', type(exc).__name__)
    raise HarnessError('unknown op %r' % (op,))


def avg_apply(state, call):
    total, count = state
    op, res = call.op, call.result
    if op[0] == 'add':
        return (total + op[1], count + 1), res == ('ok', None)
    mean = None if count == 0 else total / count
    if op[0] == 'get':
        return state, res == ('ok', mean)
    return (0.0, 0), res == ('ok', mean)


class AveragerCheck(SubCheck):
    name = 'averager'

    def examples(self, tier):
        return 150 if tier == 'quick' else 6000

    def strategy(self, tier):
        return avg_case()

    def execute(self, case, env):
        import diskcache
        from diskcache import recipes

        n = len(case['progs'])

        def open_clients(path):
            def mk():
                if case['cache'] == 'fanout':
                    return diskcache.FanoutCache(path, shards=2, timeout=0)
                return diskcache.Cache(path, timeout=0)

            if case['mode'] == 'shared':
                base = mk()
                caches, closeables = [base] * n, [base]
            else:
                caches = [mk() for _ in range(n)]
                closeables = caches
            avs = [recipes.Averager(c, 'avg-key') for c in caches]
            for v in case['init']:
                avs[0].add(v)
            return avs, closeables

        def warm(av):
            c = av._cache
            if isinstance(c, diskcache.Cache):
                c._sql
            else:
                for s in c._shards:
                    s._sql

        calls, sched = run_scheduled(env, case['progs'], case['schedule'], open_clients, avg_do, 'C20', warm=warm, final_ops=[('get',), ('pop',), ('get',)])
        if sched.limit_hit:
            return {'nontrivial': False, 'classes': ['step-limit']}
        mark_interleaved(calls, sched.trace)
        for c in calls:
            if c.result[0] == 'exc':
                raise Violation('C20/averager/unexpected-exception/%s' % c.result[1], 'call %r\n%s' % (c, fmt(calls)))
        init = (float(sum(case['init'])), len(case['init']))
        if linearize(calls, init, avg_apply, lambda s: s) is None:
            raise Violation('C20/averager/linearizability', 'no order of the calls explains these means (initial total,count = %r):\n%s' % (init, fmt(calls)))
        adds = [c for c in calls if c.op[0] == 'add']
        nontrivial = sum(1 for c in adds if c.interleaved) >= 1 and len({c.client for c in adds}) >= 2
        nontrivial = nontrivial or any(c.op[0] == 'pop' for c in calls) and len(adds) >= 2
        return {'nontrivial': nontrivial, 'classes': ['cache=' + case['cache'], 'mode=' + case['mode']]}

    def selftest(self, env):
        io_selftest(env)


# ---------------------------------------------------------------------------------------------
# throttle on a discrete-event virtual clock


class EventSim:
    """Callers are threads; exactly one runs; a caller yields in sleep(d) and resumes when virtual time reaches
    its wake-up.  Ties are resolved by the generated priority list."""

    def __init__(self, n, priorities):
        self.now = 0.0
        self.n = n
        self.go = [threading.Semaphore(0) for _ in range(n)]
        self.arrived = threading.Semaphore(0)
        self.wake = [0.0] * n
        self.done = [False] * n
        self.wakeups = [0] * n
        self.prio = list(priorities)
        self.current = None
        self.errors = []

    def time(self):
        return self.now

    def sleep(self, d):
        i = self.current
        self.wake[i] = self.now + max(d, 1e-6)
        self.arrived.release()
        self.go[i].acquire()

    def run(self, bodies, max_events=20000):
        threads = []

        def wrap(i, body):
            def target():
                self.go[i].acquire()
                try:
                    body(i)
                except BaseException as exc:
                    self.errors.append((i, exc))
                finally:
                    self.done[i] = True
                    self.arrived.release()

            return target

        for i, b in enumerate(bodies):
            t = threading.Thread(target=wrap(i, b), daemon=True)
            t.start()
            threads.append(t)
        events = 0
        k = 0
        while not all(self.done):
            events += 1
            if events > max_events:
                raise HarnessError('throttle simulation exceeded %d events' % max_events)
            alive = [i for i in range(self.n) if not self.done[i]]
            tmin = min(self.wake[i] for i in alive)
            ready = [i for i in alive if self.wake[i] <= tmin]
            if len(ready) > 1 and self.prio:
                pick = ready[self.prio[k % len(self.prio)] % len(ready)]
                k += 1
            else:
                pick = ready[0]
            self.now = max(self.now, self.wake[pick])
            self.current = pick
            self.wakeups[pick] += 1
            self.go[pick].release()
            self.arrived.acquire()
        for t in threads:
            t.join(5)
        if self.errors:
            raise HarnessError('throttle caller raised %r' % (self.errors[0],))


@st.composite
def throttle_case(draw):
    count = draw(st.integers(1, 5))
    seconds = draw(st.sampled_from([0.5, 1, 2, 7]))
    rate = count / float(seconds)
    n = draw(st.integers(1, 3))
    gap = st.sampled_from(['zero', 'tiny', 'period', 'idle', 'zero', 'zero'])
    callers = [draw(st.lists(gap, min_size=1, max_size=10)) for _ in range(n)]
    return {
        'count': count,
        'seconds': seconds,
        'callers': callers,
        'prio': draw(st.lists(st.integers(0, 2), max_size=8)),
        'cache': draw(st.sampled_from(['cache', 'fanout'])),
    }


class ThrottleCheck(SubCheck):
    name = 'throttle'

    def examples(self, tier):
        return 150 if tier == 'quick' else 5000

    def strategy(self, tier):
        return throttle_case()

    def execute(self, case, env):
        import diskcache
        from diskcache import recipes

        get_seams(env)
        count, seconds = case['count'], case['seconds']
        rate = count / float(seconds)
        n = len(case['callers'])
        path = env.scratch.fresh('thr')
        cache = diskcache.FanoutCache(path, shards=2, timeout=0) if case['cache'] == 'fanout' else diskcache.Cache(path, timeout=0)
        sim = EventSim(n, case['prio'])
        starts = []
        per_call_wakeups = []
        burst_after_idle = [False]
        contended = [False]

        def func(i):
            starts.append((sim.now, i))

        try:
            wrapped = recipes.throttle(cache, count, seconds, name='thr', time_func=sim.time, sleep_func=sim.sleep)(func)
            gaps = {'zero': 0.0, 'tiny': 1e-4, 'period': 1.0 / rate, 'idle': 3.0 * seconds + 1.0}

            def body_for(i):
                def body(idx):
                    for g in case['callers'][i]:
                        if gaps[g] > 0:
                            sim.sleep(gaps[g])
                        before = sim.wakeups[i]
                        wrapped(i)
                        per_call_wakeups.append(sim.wakeups[i] - before)

                return body

            sim.run([body_for(i) for i in range(n)])
        finally:
            cache.close()
            env.scratch.drop(path)
        ss = sorted(s for s, _ in starts)
        total = sum(len(c) for c in case['callers'])
        if len(ss) != total:
            raise Violation('C20/throttle/lost-call', '%d calls made, %d started' % (total, len(ss)))
        for i in range(len(ss)):
            for j in range(i, len(ss)):
                allowed = count + rate * (ss[j] - ss[i]) + 1e-6
                if j - i + 1 > allowed:
                    raise Violation(
                        'C20/throttle/rate-exceeded',
                        'throttle(count=%d, seconds=%r): %d starts within %.6f s (allowed %.3f); start instants %s, callers %r'
                        % (count, seconds, j - i + 1, ss[j] - ss[i], allowed, short([round(x, 6) for x in ss], 300), case['callers']),
                    )
        limit = 12 * n
        if per_call_wakeups and max(per_call_wakeups) > limit:
            raise Violation('C20/throttle/liveness', 'a call needed %d wake-ups (bound %d) with count=%d seconds=%r callers=%r' % (max(per_call_wakeups), limit, count, seconds, case['callers']))
        idle_burst = any('idle' in c and len(c) > c.index('idle') + 1 for c in case['callers'])
        contend = n >= 2 and any(w >= 1 for w in per_call_wakeups)
        return {'nontrivial': idle_burst or contend, 'classes': ['callers=%d' % n] + (['idle-burst'] if idle_burst else []) + (['contended'] if contend else [])}


class AveragerProcesses(AveragerCheck):
    name = 'averager_processes'

    def examples(self, tier):
        return 30 if tier == 'quick' else 1500

    def execute(self, case, env):
        import diskcache
        from diskcache import recipes

        from ..procsched import run_scheduled_procs

        def mk(path):
            if case['cache'] == 'fanout':
                return diskcache.FanoutCache(path, shards=2, timeout=0)
            return diskcache.Cache(path, timeout=0)

        def setup(path):
            base = mk(path)
            av = recipes.Averager(base, 'avg-key')
            for v in case['init']:
                av.add(v)
            return base

        def make_client(path, shared, i):
            c = shared if (case['mode'] == 'shared' and i >= 0) else mk(path)
            for shard in ([c] if isinstance(c, diskcache.Cache) else c._shards):
                shard._sql
            return recipes.Averager(c, 'avg-key')

        calls, run = run_scheduled_procs(env, case['progs'], case['schedule'], setup, make_client, avg_do, 'C20', final_ops=[('get',), ('pop',), ('get',)])
        if run.limit_hit:
            return {'nontrivial': False, 'classes': ['step-limit']}
        mark_interleaved(calls, run.trace)
        for c in calls:
            if c.result[0] == 'exc':
                raise Violation('C20/averager/unexpected-exception/%s' % c.result[1], 'call %r\n%s' % (c, fmt(calls)))
        init = (float(sum(case['init'])), len(case['init']))
        if linearize(calls, init, avg_apply, lambda s: s) is None:
            raise Violation('C20/averager/linearizability/processes', 'no order of the calls explains these means (initial total,count = %r):\n%s' % (init, fmt(calls)))
        adds = [c for c in calls if c.op[0] == 'add']
        return {'nontrivial': any(c.interleaved for c in adds) and len({c.client for c in adds}) >= 2, 'classes': ['processes', 'cache=' + case['cache']]}


SUBCHECKS = [AveragerCheck(), ThrottleCheck(), AveragerProcesses()]
