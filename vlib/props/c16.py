"""C16 — memoized functions return what the function returns and never share entries."""

import hashlib
import itertools

from hypothesis import strategies as st

from ..common import HarnessError, Violation, short
from ..engine import SubCheck
from ..model import strict
from ..seams import Seams

LEVEL = 'exploration'
RULE = (
    'exhaustive part: every call signature with <= 3 positionals and keyword arguments a subset of {a,b} over the value '
    'alphabet {None,0,1,1.0,True,"a","None",("a",1),("a",None)} (82 000 signatures) x typed on/off x ignore in '
    '{(),(0,),("a",),(0,"a"),(1,)}: signatures whose cache keys coincide (as the cache identifies keys: type and structure) '
    'must be calls the memoized echo function answers identically (== when untyped, type-strict when typed); random part: '
    'call histories through Cache/FanoutCache/Index/DjangoCache.memoize and memoize_stampede with expire in {None,10,0} '
    'and clock steps: every result equals the direct call, a repeat within the expiry time does not run the function, after '
    'it does, expire=0 stores nothing; stacked part: memoize / memoize_stampede around an already memoized callable plus a second function on '
    'one Cache or FanoutCache: results, distinct name-prefixed keys, __wrapped__. non-trivial = a signature whose flattened key material equals or permutes that of '
    'another signature (collision-prone bucket), resp. a history with a repeated call; distinct by signature/case hash'
)
ASSUMPTIONS = [
    'the memoized function is an echo of its non-ignored arguments, so any shared entry shows as a wrong result',
    'untyped memoization may legitimately merge equal values of different types (1 and 1.0), judged with ==',
    'memoize_stampede is run with random pinned to "never recompute early" (the early path is timing dependent)',
]

ALPHA = [None, 0, 1, 1.0, True, 'a', 'None', ('a', 1), ('a', None)]
IGNORES = [(), (0,), ('a',), (0, 'a'), (1,)]


def signatures(max_pos=3):
    kws = [()]
    for name in ('a', 'b'):
        kws += [((name, v),) for v in ALPHA]
    kws += [(('a', v), ('b', w)) for v in ALPHA for w in ALPHA]
    for n in range(max_pos + 1):
        for args in itertools.product(ALPHA, repeat=n):
            for kw in kws:
                yield args, kw


def echo_result(args, kw, ignore):
    return (
        tuple(a for i, a in enumerate(args) if i not in ignore),
        tuple(sorted((k, v) for k, v in kw if k not in ignore)),
    )


def equivalent(r1, r2, typed):
    if typed:
        return strict(r1) == strict(r2)
    return r1 == r2


def collision_class(s1, s2):
    (a1, k1), (a2, k2) = s1, s2
    if (bool(k1) != bool(k2)) and (None in a1 or None in a2):
        return 'positional-None-vs-keyword'
    if k1 and k2 and (None in a1 or None in a2):
        return 'positional-None-vs-keyword'
    if len(a1) == len(a2) and dict(k1).keys() == dict(k2).keys():
        return 'typed-or-value'
    return 'other'


class KeyPairs(SubCheck):
    name = 'key_pairs_exhaustive'
    exhaustive = True

    def examples(self, tier):
        return 0

    def enumerate(self, tier):
        for typed in (False, True):
            for ignore in IGNORES:
                yield {'typed': typed, 'ignore': ignore, 'max_pos': 3}

    def execute(self, case, env):
        from diskcache.core import args_to_key

        typed, ignore = case['typed'], set(case['ignore'])
        sigs = case.get('sigs')
        it = sigs if sigs is not None else signatures(case.get('max_pos', 3))
        groups = {}
        buckets = {}
        n = 0
        for args, kw in it:
            n += 1
            args = tuple(args)
            kw = tuple(tuple(p) for p in kw)
            key = args_to_key(('f',), args, dict(kw), typed, ignore)
            sk = strict(key)
            res = echo_result(args, kw, ignore)
            other = groups.get(sk)
            if other is None:
                groups[sk] = (args, kw, res)
            elif not equivalent(other[2], res, typed):
                v = Violation(
                    'C16/shared-entry/%s' % collision_class((other[0], other[1]), (args, kw)),
                    'typed=%r ignore=%r: f(*%r, **%r) and f(*%r, **%r) get the same cache key %s but the function '
                    'returns %r vs %r' % (typed, sorted(map(repr, ignore)), other[0], dict(other[1]), args, dict(kw), short(key, 200), other[2], res),
                )
                v.min_case = {'typed': typed, 'ignore': case['ignore'], 'sigs': [(other[0], other[1]), (args, kw)]}
                raise v
            if sigs is None:
                flat = tuple(sorted(repr(x) for x in args + tuple(k for k, _ in kw) + tuple(v for _, v in kw)))
                buckets.setdefault(flat, []).append(n)
        nontrivial_keys = []
        if sigs is None:
            tag = '%s/%r' % (typed, case['ignore'])
            for flat, members in buckets.items():
                if len(members) >= 2:
                    nontrivial_keys.extend('%s/%d' % (tag, m) for m in members)
        return {'count': n, 'nontrivial_keys': nontrivial_keys, 'classes': ['typed=%r' % typed]}

    def describe(self, case):
        from ..common import enc

        d = dict(case)
        d['example_signatures'] = [list(s) for s in itertools.islice(signatures(case.get('max_pos', 3)), 200, 204)]
        return enc(d)


# ---------------------------------------------------------------------------------------------
# wrapper histories

DECORATORS = ['cache', 'fanout', 'index', 'django', 'stampede']


def get_seams(env):
    seams = env.cache.get('seams')
    if seams is None:
        import diskcache.core as core
        import diskcache.fanout as fanout
        import diskcache.recipes as recipes

        seams = Seams()
        seams.install_clock([core, fanout, recipes])
        env.cache['seams'] = seams

        class NeverEarly:
            def random(self):
                return 1.0 - 2.0 ** -53

        if not hasattr(recipes, 'random'):
            raise HarnessError('seam lost: diskcache.recipes.random')
        recipes.random = NeverEarly()
    seams.clock.adv = 0.0
    seams.clock.reads = 0
    return seams


sig_strategy = st.tuples(
    st.lists(st.sampled_from(ALPHA), max_size=3).map(tuple),
    st.one_of(
        st.just(()),
        st.tuples(st.tuples(st.just('a'), st.sampled_from(ALPHA))),
        st.tuples(st.tuples(st.just('b'), st.sampled_from(ALPHA))),
        st.tuples(st.tuples(st.just('a'), st.sampled_from(ALPHA)), st.tuples(st.just('b'), st.sampled_from(ALPHA))),
        st.tuples(st.tuples(st.just('b'), st.sampled_from(ALPHA)), st.tuples(st.just('a'), st.sampled_from(ALPHA))),
        st.tuples(st.tuples(st.just('b'), st.sampled_from([0, 'a'])), st.tuples(st.just('a'), st.sampled_from([0, 'a']))),
        st.tuples(st.tuples(st.just('a'), st.sampled_from([0, 'a'])), st.tuples(st.just('b'), st.sampled_from([0, 'a']))),
    ),
)


class Wrappers(SubCheck):
    name = 'wrapper_histories'

    def examples(self, tier):
        return 120 if tier == 'quick' else 3000

    def strategy(self, tier):
        @st.composite
        def case(draw):
            deco = draw(st.sampled_from(DECORATORS))
            pool = draw(st.lists(sig_strategy, min_size=1, max_size=5))
            # the same call written with its keyword arguments in the other order is the same call
            pool = pool + [(a, tuple(reversed(k))) for a, k in pool if len(k) >= 2][:2]
            calls = draw(
                st.lists(
                    st.one_of(st.tuples(st.just('call'), st.integers(0, len(pool) - 1)), st.tuples(st.just('advance'), st.sampled_from([1, 5, 20]))),
                    min_size=2,
                    max_size=14,
                )
            )
            expire = draw(st.sampled_from([None, 10, 0])) if deco not in ('index',) else None
            if deco == 'stampede':
                expire = 10
            return {
                'deco': deco,
                'typed': draw(st.booleans()),
                'ignore': draw(st.sampled_from(IGNORES)),
                'named': draw(st.booleans()),
                'expire': expire,
                'pool': pool,
                'calls': calls,
            }

        return case()

    def execute(self, case, env):
        import diskcache
        from diskcache import recipes

        seams = get_seams(env)
        clock = seams.clock
        path = env.scratch.fresh('memo')
        typed, ignore, expire = case['typed'], tuple(case['ignore']), case['expire']
        name = 'fn-name' if case['named'] else None
        counter = [0]

        def fn(*args, **kwargs):
            counter[0] += 1
            return echo_result(args, tuple(kwargs.items()), set(ignore))

        deco = case['deco']
        holder = None
        if deco == 'cache':
            holder = diskcache.Cache(path)
            wrapped = holder.memoize(name=name, typed=typed, expire=expire, ignore=ignore)(fn)
            length = lambda: len(holder)
        elif deco == 'fanout':
            holder = diskcache.FanoutCache(path, shards=2)
            wrapped = holder.memoize(name=name, typed=typed, expire=expire, ignore=ignore)(fn)
            length = lambda: len(holder)
        elif deco == 'index':
            holder = diskcache.Index(path)
            wrapped = holder.memoize(name=name, typed=typed, ignore=ignore)(fn)
            length = lambda: len(holder)
        elif deco == 'django':
            from diskcache.djangocache import DjangoCache

            holder = DjangoCache(path, {'SHARDS': 2})
            wrapped = holder.memoize(name=name, timeout=expire, typed=typed, ignore=ignore)(fn)
            length = lambda: len(holder._cache)
        else:
            holder = diskcache.Cache(path)
            wrapped = recipes.memoize_stampede(holder, expire, name=name, typed=typed, ignore=ignore)(fn)
            length = lambda: len(holder)
        closer = holder.cache if deco == 'index' else holder
        model = {}  # strict identity -> (result, stored_adv)
        repeats = 0
        try:
            for step in case['calls']:
                if step[0] == 'advance':
                    clock.advance(step[1])
                    continue
                args, kw = case['pool'][step[1]]
                args = tuple(args)
                kw = tuple(tuple(p) for p in kw)
                want = echo_result(args, kw, set(ignore))
                ident_ = strict(want) if typed else None
                before = counter[0]
                n_before = length()
                got = wrapped(*args, **dict(kw))
                ran = counter[0] - before
                if not equivalent(got, want, typed):
                    raise Violation(
                        'C16/wrong-result/%s' % deco,
                        '%s(typed=%r, ignore=%r, expire=%r): call f(*%r, **%r) returned %r, the function returns %r'
                        % (deco, typed, ignore, expire, args, dict(kw), got, want),
                    )
                key = strict(want)
                live = [k for k, (res, at) in model.items() if (expire is None or at + expire > clock.adv)]
                exact_live = key in live
                equiv_live = any(equivalent(model[k][0], want, False) for k in live)
                if exact_live:
                    repeats += 1
                    if ran:
                        raise Violation(
                            'C16/recomputed-within-expiry/%s' % deco,
                            '%s(expire=%r): repeated call f(*%r, **%r) ran the function again %d virtual s after it was cached'
                            % (deco, expire, args, dict(kw), clock.adv - model[key][1]),
                        )
                elif not equiv_live and not ran:
                    raise Violation(
                        'C16/served-without-entry/%s' % deco,
                        '%s(expire=%r): call f(*%r, **%r) did not run the function although no live entry can hold its result'
                        % (deco, expire, args, dict(kw)),
                    )
                if expire == 0:
                    if length() != n_before:
                        raise Violation('C16/expire-zero-stored/%s' % deco, 'expire=0 but len went %d -> %d' % (n_before, length()))
                    if not ran:
                        raise Violation('C16/expire-zero-cached/%s' % deco, 'expire=0 but the function did not run')
                elif ran:
                    model[key] = (want, clock.adv)
            return {'nontrivial': repeats > 0, 'classes': ['deco=' + deco, 'expire=%r' % (expire,)]}
        finally:
            try:
                closer.close()
            except Exception:
                pass
            env.scratch.drop(path)


class SignaturePairs(SubCheck):
    """Generated pairs of call signatures beyond the exhaustive arity (up to 6 positionals, keyword names a-d), plus a
    derived twin of the first signature; also the target of the atheris campaign (args_to_key is branchy pure Python)."""

    name = 'signature_pairs'

    def examples(self, tier):
        return 400 if tier == 'quick' else 20000

    def strategy(self, tier):
        v = st.one_of(st.sampled_from(ALPHA), st.sampled_from([2, 'b', (None,), ('b', None), ('a', ('a', 1)), (None, 'a', 1), 1.5, b'a']), st.tuples(st.sampled_from(['a', 'b', 'c']), st.sampled_from(ALPHA)))
        names = ['a', 'b', 'c', 'd']
        kw = st.dictionaries(st.sampled_from(names), v, max_size=4).map(lambda d: tuple(d.items()))
        sig = st.tuples(st.lists(v, max_size=6).map(tuple), kw)
        # (a tuple mapped to a dict: hypothesis.fuzz_one_input rejected every buffer for the equivalent fixed_dictionaries)
        return st.tuples(
            st.booleans(),
            st.sampled_from(IGNORES + [(2,), ('b', 'c'), (0, 1, 'a')]),
            sig,
            sig,
            st.sampled_from(['none', 'kw-to-pos', 'pos-to-kw', 'drop-sep', 'reorder']),
        ).map(lambda t: {'typed': t[0], 'ignore': t[1], 's1': t[2], 's2': t[3], 'twin': t[4]})

    def execute(self, case, env):
        from diskcache.core import args_to_key

        typed, ignore = case['typed'], set(case['ignore'])
        s1 = (tuple(case['s1'][0]), tuple(tuple(p) for p in case['s1'][1]))
        s2 = (tuple(case['s2'][0]), tuple(tuple(p) for p in case['s2'][1]))
        sigs = [s1, s2]
        a, k = s1
        twin = case['twin']
        if twin == 'kw-to-pos' and k:
            sigs.append((a + (None,) + tuple(x for item in sorted(k) for x in item), ()))
            sigs.append((a + (None,) + tuple(sorted(k)), ()))
        elif twin == 'pos-to-kw' and len(a) >= 2 and type(a[-2]) is str and a[-2] in ('a', 'b', 'c', 'd'):
            sigs.append((a[:-2], ((a[-2], a[-1]),)))
        elif twin == 'drop-sep' and a and a[-1] is None:
            sigs.append((a[:-1], k))
        elif twin == 'reorder' and len(k) >= 2:
            sigs.append((a, tuple(reversed(k))))
        if twin == 'reorder' and len(k) >= 2 and len({name for name, _ in k}) == len(k):
            k1 = args_to_key(('f',), a, dict(k), typed, ignore)
            k2 = args_to_key(('f',), a, dict(tuple(reversed(k))), typed, ignore)
            if strict(k1) != strict(k2):
                raise Violation(
                    'C16/same-call-different-key/keyword-order',
                    'typed=%r ignore=%r: f(*%r, **%r) written with its keywords in the other order gets another cache key: %s vs %s'
                    % (typed, sorted(map(repr, ignore)), a, dict(k), short(k1, 200), short(k2, 200)),
                )
        groups = {}
        for args, kw in sigs:
            if len({name for name, _ in kw}) != len(kw):
                continue
            key = args_to_key(('f',), args, dict(kw), typed, ignore)
            sk = strict(key)
            res = echo_result(args, kw, ignore)
            other = groups.get(sk)
            if other is None:
                groups[sk] = (args, kw, res)
            elif not equivalent(other[2], res, typed):
                raise Violation(
                    'C16/shared-entry/%s' % collision_class((other[0], other[1]), (args, kw)),
                    'typed=%r ignore=%r: f(*%r, **%r) and f(*%r, **%r) get the same cache key %s but the function returns %r vs %r'
                    % (typed, sorted(map(repr, ignore)), other[0], dict(other[1]), args, dict(kw), short(key, 200), other[2], res),
                )
        return {'nontrivial': len(sigs) > 2 or len(groups) < len(sigs), 'classes': ['twin=' + twin, 'typed=%r' % typed]}


from ..fuzz import FuzzCampaign  # noqa: E402

class StackedWrappers(SubCheck):
    """Memoizing decorators stacked on one cache: inner = memoizer A (name 'inner') around the function, outer = memoizer B
    (name 'outer') around inner; a second function g is memoized under its own name.  A decorated callable is a function like
    any other: calls to outer, inner and g in any order return what the plain function returns, and the three never share
    entries (their __cache_key__ for one call differ, each is prefixed by its own name, __wrapped__ is the callable given)."""

    name = 'stacked_wrappers'
    KINDS = ['memoize', 'stampede']

    def examples(self, tier):
        return 60 if tier == 'quick' else 3000

    def strategy(self, tier):
        @st.composite
        def case(draw):
            pool = draw(st.lists(sig_strategy, min_size=1, max_size=4))
            calls = draw(st.lists(st.tuples(st.sampled_from(['outer', 'inner', 'g', 'outer']), st.integers(0, len(pool) - 1)), min_size=2, max_size=10))
            return {
                'holder': draw(st.sampled_from(['cache', 'fanout'])),
                'inner': draw(st.sampled_from(self.KINDS)),
                'outer': draw(st.sampled_from(self.KINDS)),
                'typed': (draw(st.booleans()), draw(st.booleans())),
                'pool': pool,
                'calls': calls,
            }

        return case()

    def execute(self, case, env):
        import diskcache
        from diskcache import recipes

        get_seams(env)
        path = env.scratch.fresh('stack')
        holder = diskcache.Cache(path) if case['holder'] == 'cache' else diskcache.FanoutCache(path, shards=2)
        runs = {'f': 0, 'g': 0}

        def f(*args, **kwargs):
            runs['f'] += 1
            return ('f',) + echo_result(args, tuple(kwargs.items()), set())

        def g(*args, **kwargs):
            runs['g'] += 1
            return ('g',) + echo_result(args, tuple(kwargs.items()), set())

        def deco(kind, name, typed):
            if kind == 'memoize':
                return holder.memoize(name=name, typed=typed)
            return recipes.memoize_stampede(holder, 60, name=name, typed=typed)

        try:
            inner = deco(case['inner'], 'inner', case['typed'][0])(f)
            outer = deco(case['outer'], 'outer', case['typed'][1])(inner)
            gw = deco(case['outer'], 'g', case['typed'][1])(g)
            fns = {'outer': outer, 'inner': inner, 'g': gw}
            label = '%s over %s' % (case['outer'], case['inner'])
            if outer.__wrapped__ is not inner or inner.__wrapped__ is not f:
                raise Violation('C16/stacked/wrapped-attribute', '%s: __wrapped__ of outer is %r (inner is %r), of inner %r' % (label, outer.__wrapped__, inner, inner.__wrapped__))
            seen = set()
            for which, idx in case['calls']:
                args, kw = case['pool'][idx]
                args = tuple(args)
                kw = tuple(tuple(p) for p in kw)
                keys = {n: fn.__cache_key__(*args, **dict(kw)) for n, fn in fns.items()}
                for n, k in keys.items():
                    if k[0] != n:
                        raise Violation('C16/stacked/key-name', '%s: the cache key of %s for f(*%r, **%r) is %r: not prefixed by its own name' % (label, n, args, dict(kw), k))
                if len({strict(k) for k in keys.values()}) != 3:
                    raise Violation('C16/stacked/shared-key', '%s: outer, inner and g do not have three different keys for f(*%r, **%r): %r' % (label, args, dict(kw), keys))
                want = ('g' if which == 'g' else 'f',) + echo_result(args, kw, set())
                try:
                    got = fns[which](*args, **dict(kw))
                except Exception as exc:
                    raise Violation('C16/stacked/raised/%s' % type(exc).__name__, '%s: %s(*%r, **%r) raised %r after calls %r' % (label, which, args, dict(kw), exc, sorted(seen)))
                if got != want:
                    raise Violation('C16/stacked/wrong-result', '%s: %s(*%r, **%r) returned %r, the function returns %r (earlier calls %r)' % (label, which, args, dict(kw), got, want, sorted(seen)))
                seen.add((which, idx))
            both = len({w for w, i in seen}) >= 2 and any(('outer', i) in seen and ('inner', i) in seen for _, i in seen)
            return {'nontrivial': both, 'classes': [label, 'holder=' + case['holder']]}
        finally:
            holder.close()
            env.scratch.drop(path)


SUBCHECKS = [KeyPairs(), Wrappers(), SignaturePairs(), StackedWrappers()]
SUBCHECKS.append(FuzzCampaign('c16', SUBCHECKS[2], runs_quick=3000, runs_thorough=150000))
