"""C03 — a single client sees an exact dictionary with expiry, tags and statistics."""

import itertools
import sqlite3

from hypothesis import strategies as st

from .. import cacheops, common
from ..cacheops import POLICIES, Runner, nontrivial_history, op_strategy
from ..common import HarnessError
from ..engine import SubCheck
from ..model import CacheModel
from ..seams import Seams

LEVEL = 'exploration'
RULE = (
    'histories = generated call sequences applied to a real Cache and to a reference dictionary with '
    'expiry/tags/statistics under a virtual clock, compared on every return value, on len after every '
    'call and on a full scan (4 iteration orders, value/expiry/tag of every item) at the end; '
    'exhaustive part = every sequence up to the stated length over the small op alphabet; non-trivial = '
    '>= 2 different mutating methods hit the same key or a bulk write crossed the 100-row page; distinct '
    'by SHA-1 of the canonical op list + configuration'
)
ASSUMPTIONS = [
    'the virtual clock replaces diskcache.core.time (seam self-test fails the run if it is disconnected)',
    'exact-tie instants now == expire_time never occur by construction (the property is silent there)',
    'incr on non-numeric values and evict(None) are outside the generated domain (unspecified)',
    'size_limit stays at 1 GiB, so every policy eviction is a violation here; eviction order is C09',
]


def get_clock(env):
    from ..conc import get_seams

    return get_seams(env).clock


def config_strategy():
    return st.fixed_dictionaries(
        {
            'eviction_policy': st.sampled_from(POLICIES),
            'statistics': st.booleans(),
            'tag_index': st.booleans(),
            'disk_min_file_size': st.sampled_from([8, 32768]),
            'cull_limit': st.sampled_from([0, 10]),
        }
    )


def open_cache(path, cfg):
    import diskcache

    return diskcache.Cache(path, **cfg)


def run_history(env, cfg, ops, pid='C03', runner_cls=Runner, final_scan=True):
    clock = get_clock(env)
    path = env.scratch.fresh()
    cache = open_cache(path, cfg)
    holder = {'c': cache}

    def reopen(c):
        import diskcache

        c.close()
        holder['c'] = diskcache.Cache(path)
        return holder['c']

    try:
        model = CacheModel(statistics=cfg.get('statistics', False), policy=cfg.get('eviction_policy'))
        r = runner_cls(cache, model, clock, cfg, pid=pid, reopen=reopen)
        r.run(ops)
        if final_scan:
            r.scan()
            r.step(('stats', True, False))
        return r
    finally:
        try:
            holder['c'].close()
        except Exception:
            pass
        env.scratch.drop(path)


class Random(SubCheck):
    name = 'random'

    def examples(self, tier):
        return 60 if tier == 'quick' else 2500

    def strategy(self, tier):
        steps = 60 if tier == 'quick' else 200

        @st.composite
        def case(draw):
            cfg = draw(config_strategy())
            ops = draw(st.lists(op_strategy(cfg['disk_min_file_size']), min_size=1, max_size=steps))
            return {'cfg': cfg, 'ops': ops}

        return case()

    def execute(self, case, env):
        r = run_history(env, case['cfg'], case['ops'])
        classes = sorted(r.classes)
        return {'nontrivial': nontrivial_history(case['ops']), 'classes': classes + ['policy=' + case['cfg']['eviction_policy']]}

    def selftest(self, env):
        import diskcache

        clock = get_clock(env)
        path = env.scratch.fresh('self')
        c = diskcache.Cache(path)
        try:
            t0 = clock.peek()
            c.set('k', 1, expire=10)
            t1 = clock.peek()
            con = sqlite3.connect(path + '/cache.db')
            ((exp,),) = con.execute('SELECT expire_time FROM Cache').fetchall()
            con.close()
            if not (t0 + 10 <= exp <= t1 + 10):
                raise HarnessError('clock seam disconnected: stored expire_time %r not in [%r, %r]' % (exp, t0 + 10, t1 + 10))
        finally:
            c.close()
            env.scratch.drop(path)


SMALL_CFGS = [
    {'eviction_policy': 'least-recently-stored', 'statistics': True, 'tag_index': False, 'disk_min_file_size': 8, 'cull_limit': 10},
    {'eviction_policy': 'least-recently-used', 'statistics': False, 'tag_index': True, 'disk_min_file_size': 8, 'cull_limit': 0},
    {'eviction_policy': 'least-frequently-used', 'statistics': True, 'tag_index': True, 'disk_min_file_size': 8, 'cull_limit': 10},
    {'eviction_policy': 'none', 'statistics': False, 'tag_index': False, 'disk_min_file_size': 8, 'cull_limit': 10},
]


def small_alphabet():
    inline, filev = ('i', 1), ('B', 7, 11)
    ops = []
    for k in ('a', 'b'):
        for ttl in (None, 5):
            for tag in (None, 't'):
                ops.append(('set', k, inline, ttl, tag))
            ops.append(('set', k, filev, ttl, None))
            ops.append(('add', k, inline, ttl, None))
            ops.append(('touch', k, ttl))
        ops.append(('get', k, None, False, True, True))
        ops.append(('in', k))
        ops.append(('incr', k, 1, 0))
        ops.append(('pop', k, False, False))
        ops.append(('delete', k))
    ops += [('clear',), ('evict', 't'), ('expire',), ('peekitem', True), ('advance', 10)]
    return ops


class Exhaustive(SubCheck):
    name = 'exhaustive'
    exhaustive = True

    def examples(self, tier):
        return 0

    def enumerate(self, tier):
        alpha = small_alphabet()
        n = 0
        maxlen = 3 if tier == 'quick' else 4
        if tier != 'quick':
            # length 4 over a 24-op sub-alphabet
            sub = [o for o in alpha if not (o[0] in ('set', 'add', 'touch') and o[1] == 'b' and o[3 if o[0] != 'touch' else 2] is None)]
        for length in range(1, 4):
            for seq in itertools.product(alpha, repeat=length):
                yield {'cfg': SMALL_CFGS[n % len(SMALL_CFGS)], 'ops': list(seq)}
                n += 1
        if maxlen == 4:
            sub = sub[:24]
            for seq in itertools.product(sub, repeat=4):
                yield {'cfg': SMALL_CFGS[n % len(SMALL_CFGS)], 'ops': list(seq)}
                n += 1

    def execute(self, case, env):
        r = run_history(env, case['cfg'], case['ops'])
        return {'nontrivial': nontrivial_history(case['ops']), 'classes': ['len=%d' % len(case['ops'])]}


SUBCHECKS = [Exhaustive(), Random()]
