"""C02 — keys address entries by documented equality and never alias one another."""

import json
import os
import pickle
import pickletools

from hypothesis import strategies as st

from ..common import Violation, dec, enc, rebuild, short
from ..engine import SubCheck
from ..model import ident, sort_key, strict

LEVEL = 'exploration'
RULE = (
    'pairs of keys (k1, k2): k1 from str/bytes/int inside and outside int64 incl. boundaries/float incl. -0.0, '
    'subnormals, integers near 2**53 and 2**63, inf/bool/None/tuples/frozensets; k2 independent or derived from k1 by a '
    'menu aimed at the encoding boundaries (rebuilt copy, int<->equal float, 0.0<->-0.0, bool<->int, str<->UTF-8 bytes, '
    'bytes equal to the optimized pickle of k1 for every protocol, tuple<->list, neighbour across 2**63, 2**64 vs float); '
    'optionally >= 100 filler keys so iterkeys() pages with ties on the key column. Oracle: documented identity '
    '(numbers by exact numeric value, str, bytes, everything else by type and structure; JSONDisk: json.dumps): same '
    'identity => one entry, both keys hit the last value, one iterated key; different identity => two entries, own '
    'values, both present with their own types in all four iteration orders, deleting one leaves the other, also after '
    'close/reopen. non-trivial = derived pair, or equal identity with different types, or different identity while '
    'Python == holds; distinct by SHA-1 of the canonical case'
)
ASSUMPTIONS = [
    'both keys are rebuilt by one deterministic builder before use, so "must coincide" is asserted only for keys '
    'built the same way (documented pickling caveat, issue #54); "must not alias" is asserted for all pairs',
    'NaN is outside the key domain',
]

I63 = 2**63
SPECIAL_INTS = [0, 1, -1, 2, I63 - 1, I63, I63 + 1, -I63, -I63 - 1, -I63 + 1, 2**64, 2**53, 2**53 + 1, 10**30]
SPECIAL_FLOATS = [0.0, -0.0, 1.0, -1.0, 2.0, 5e-324, 2.0**53, 2.0**53 + 2, 2.0**63, -(2.0**63), 2.0**64, float('inf'), float('-inf'), 0.5, 1e30]

natives = st.one_of(
    st.text(max_size=4),
    st.sampled_from(['', 'a', '1', 'é', '\x00', 'a\x00b']),
    st.binary(max_size=4),
    st.sampled_from([b'', b'a', b'1', b'\x00']),
    st.integers(-(2**70), 2**70),
    st.sampled_from(SPECIAL_INTS),
    st.floats(allow_nan=False),
    st.sampled_from(SPECIAL_FLOATS),
)
atoms = st.one_of(natives, st.booleans(), st.none())
keys = st.one_of(
    natives,
    natives,
    st.booleans(),
    st.none(),
    st.lists(atoms, max_size=3).map(tuple),
    st.frozensets(st.one_of(st.integers(-3, 3), st.sampled_from(['a', 'b'])), max_size=3),
    st.lists(st.one_of(atoms, st.lists(atoms, max_size=2).map(tuple)), max_size=3).map(tuple),
)

json_atoms = st.one_of(st.text(max_size=3), st.integers(-(2**70), 2**70), st.sampled_from([0, 1, I63, -I63 - 1]), st.floats(allow_nan=False, allow_infinity=False), st.sampled_from([0.0, 1.0, -0.0]), st.booleans(), st.none())
json_keys = st.one_of(json_atoms, st.lists(json_atoms, max_size=3))

DERIVATIONS = ['same', 'numeric-twin', 'neg-zero', 'bool-int', 'str-bytes', 'pickle-bytes', 'tuple-list', 'neighbour', 'wrap-tuple']


def derive(k1, how, protocol):
    t = type(k1)
    if how == 'same':
        return k1
    if how == 'numeric-twin':
        if t is int:
            try:
                f = float(k1)
            except OverflowError:
                return None
            return f if f == k1 else None
        if t is float and k1 == k1 and abs(k1) != float('inf') and k1 == int(k1):
            return int(k1)
        return None
    if how == 'neg-zero':
        if (t is float or t is int) and k1 == 0:
            return -0.0 if (t is int or str(k1) == '0.0') else 0.0
        return None
    if how == 'bool-int':
        if t is bool:
            return int(k1)
        if t is int and k1 in (0, 1):
            return bool(k1)
        if t is float and k1 in (0.0, 1.0):
            return bool(k1)
        return None
    if how == 'str-bytes':
        if t is str:
            try:
                return k1.encode('utf-8')
            except UnicodeEncodeError:
                return None
        if t is bytes:
            try:
                return k1.decode('utf-8')
            except UnicodeDecodeError:
                return None
        return None
    if how == 'pickle-bytes':
        try:
            return pickletools.optimize(pickle.dumps(k1, protocol=protocol))
        except Exception:
            return None
    if how == 'tuple-list':
        if t is tuple:
            return list(k1)
        return None
    if how == 'neighbour':
        if t is int:
            return k1 + 1
        return None
    if how == 'wrap-tuple':
        return (k1,)
    return None


@st.composite
def pair_case(draw, tier):
    disk = draw(st.sampled_from(['Disk', 'Disk', 'Disk', 'Disk', 'JSONDisk']))
    protocol = draw(st.integers(0, pickle.HIGHEST_PROTOCOL))
    if disk == 'JSONDisk':
        k1 = draw(json_keys)
        how = draw(st.sampled_from(['independent', 'same', 'numeric-twin', 'bool-int', 'neighbour', 'tuple-list']))
        k2 = None
        if how != 'independent':
            k2 = derive(k1, how, protocol) if how != 'tuple-list' else (tuple(k1) if type(k1) is list else None)
        if k2 is None:
            how = 'independent'
            k2 = draw(json_keys)
    else:
        k1 = draw(keys)
        how = draw(st.sampled_from(['independent', 'independent'] + DERIVATIONS))
        k2 = derive(k1, how, protocol) if how != 'independent' else None
        if k2 is None:
            how = 'independent'
            k2 = draw(keys)
    fill = draw(st.sampled_from([0, 0, 0, 0, 101, 150]))
    reopen = draw(st.integers(0, 7)) == 0
    probe = draw(st.sampled_from(['none', 'touch', 'pop', 'delete', 'add', 'incr', 'absent']))
    return {'disk': disk, 'protocol': protocol, 'k1': k1, 'k2': k2, 'how': how, 'fill': fill, 'reopen': reopen, 'probe': probe}


def jident(k):
    return json.dumps(k)


def get_cache(env, disk, protocol):
    import diskcache

    key = ('c02', disk, protocol)
    c = env.cache.get(key)
    if c is None:
        path = env.scratch.fresh('c02')
        c = env.cache[key] = diskcache.Cache(path, disk=getattr(diskcache, disk), disk_pickle_protocol=protocol, eviction_policy='none')
    return c


class Pairs(SubCheck):
    name = 'key_pairs'

    def examples(self, tier):
        return 500 if tier == 'quick' else 10000

    def strategy(self, tier):
        return pair_case(tier)

    def execute(self, case, env):
        try:
            return self._execute(case, env)
        except Violation:
            raise
        except Exception as exc:
            import traceback

            raise Violation(
                'C02/operation-raised/%s' % type(exc).__name__,
                'k1=%s k2=%s disk=%s protocol=%d: %s' % (short(case['k1'], 100), short(case['k2'], 100), case['disk'], case['protocol'], traceback.format_exc(limit=-3)),
            )

    def _execute(self, case, env):
        disk, protocol = case['disk'], case['protocol']
        c = get_cache(env, disk, protocol)
        c.clear()
        # one deterministic builder for both keys
        k1 = rebuild(case['k1'])
        k2 = rebuild(case['k2'])
        jd = disk == 'JSONDisk'
        id1, id2 = (jident(k1), jident(k2)) if jd else (ident(k1), ident(k2))
        equal = id1 == id2

        def fail(what, detail):
            raise Violation(
                'C02/%s/%s' % (what, case['how'] if case['how'] != 'independent' else _kind(k1, k2)),
                '%s\nk1=%s (%s) k2=%s (%s) derivation=%s disk=%s protocol=%d identity-equal=%s'
                % (detail, short(k1, 100), type(k1).__name__, short(k2, 100), type(k2).__name__, case['how'], disk, protocol, equal),
            )

        filler = []
        for j in range(case['fill']):
            fk = (10**6 + j) if j % 3 == 0 else ('fill%04d' % j if j % 3 == 1 else b'fill%04d' % j)
            if jd:
                fk = 'fill%04d' % j
            fid = jident(fk) if jd else ident(fk)
            if fid in (id1, id2):
                continue
            filler.append(fk)
            c[fk] = j
        c[k1] = 'v1'
        c[k2] = 'v2'
        if case['reopen']:
            c.close()
        n_expected = len(filler) + (1 if equal else 2)
        if len(c) != n_expected:
            fail('alias' if len(c) < n_expected else 'split', 'len(cache) = %d, expected %d' % (len(c), n_expected))
        got1, got2 = c.get(k1, 'MISSING'), c.get(k2, 'MISSING')
        if equal:
            if got1 != 'v2' or got2 != 'v2':
                fail('split', 'equal keys: get(k1)=%r get(k2)=%r, expected v2/v2' % (got1, got2))
        else:
            if got1 != 'v1' or got2 != 'v2':
                fail('alias', 'distinct keys: get(k1)=%r get(k2)=%r, expected v1/v2' % (got1, got2))
        if (k1 in c) is not True or (k2 in c) is not True:
            fail('contains', 'k1 in c = %r, k2 in c = %r' % (k1 in c, k2 in c))

        def norm(k):
            return jident(k) if jd else ident(k)

        orders = {
            'iter': list(c),
            'reversed': list(reversed(c))[::-1],
            'iterkeys': list(c.iterkeys()),
            'iterkeys-rev': list(c.iterkeys(reverse=True))[::-1],
        }
        expect_ids = {norm(f) for f in filler} | {id1, id2}
        for name, ks in orders.items():
            ids = [norm(k) for k in ks]
            if len(ids) != len(set(ids)) or set(ids) != expect_ids:
                fail('iteration', '%s returned %d keys (%d distinct identities), expected %d; missing=%s extra=%s'
                     % (name, len(ids), len(set(ids)), len(expect_ids), short([i for i in expect_ids if i not in ids], 200), short([i for i in ids if i not in expect_ids], 200)))
            for k in ks:
                i = norm(k)
                if jd:
                    want = json.loads(jident(k1)) if i == id1 else (json.loads(jident(k2)) if i == id2 else None)
                    if want is not None and strict(k) != strict(want):
                        fail('iteration-type', '%s returned key %r, stored %r' % (name, k, want))
                    continue
                if i == id1 or i == id2:
                    cands = [x for x, xi in ((k1, id1), (k2, id2)) if xi == i]
                    if not any(strict(k) == strict(x) for x in cands):
                        fail('iteration-type', '%s returned key %r (%s), stored %s' % (name, k, type(k).__name__, short(cands)))
        if not jd:
            exp_sorted = sorted(expect_ids_keys(filler, k1, k2, equal), key=lambda k: sort_key(k, protocol))
            got_sorted = orders['iterkeys']
            if [ident(k) for k in got_sorted] != [ident(k) for k in exp_sorted]:
                fail('sorted-order', 'iterkeys() order %s, expected %s' % (short(got_sorted, 200), short(exp_sorted, 200)))
        probe = case.get('probe', 'none')
        if not equal and probe != 'none' and not jd:
            # every key-addressed operation must address k1's entry only
            if probe == 'touch':
                if c.touch(k1, expire=1000) is not True:
                    fail('alias', 'touch(k1) on a stored key returned False')
                e1, e2 = c.get(k1, expire_time=True)[1], c.get(k2, expire_time=True)[1]
                if e1 is None or e2 is not None:
                    fail('alias', 'after touch(k1, 1000): expire_time(k1)=%r, expire_time(k2)=%r (k2 must be untouched)' % (e1, e2))
                c.touch(k1, expire=None)
            elif probe == 'add':
                if c.add(k1, 'other') is not False or c.get(k1) != 'v1' or c.get(k2) != 'v2':
                    fail('alias', 'add(k1) on a stored key: k1=%r k2=%r' % (c.get(k1), c.get(k2)))
            elif probe == 'incr':
                c[k1] = 10
                c[k2] = 20
                r = c.incr(k1, 5)
                if r != 15 or c.get(k1) != 15 or c.get(k2) != 20:
                    fail('alias', 'incr(k1, 5) -> %r; k1=%r k2=%r' % (r, c.get(k1), c.get(k2)))
                c[k1] = 'v1'
                c[k2] = 'v2'
            elif probe in ('pop', 'delete', 'absent'):
                gone = c.pop(k1, 'MISSING') if probe != 'delete' else c.delete(k1)
                if (probe != 'delete' and gone != 'v1') or (probe == 'delete' and gone is not True):
                    fail('alias', '%s(k1) returned %r' % (probe, gone))
                if k1 in c or c.get(k2, 'MISSING') != 'v2' or len(c) != n_expected - 1:
                    fail('alias', 'after %s(k1): k1 in c=%r, get(k2)=%r, len=%d' % (probe, k1 in c, c.get(k2, 'MISSING'), len(c)))
                if probe == 'absent':
                    # k1 is now absent, k2 present: nothing addressed to k1 may hit k2
                    t = c.touch(k1, expire=1000)
                    p_ = c.pop(k1, 'MISSING')
                    d_ = c.delete(k1)
                    e2 = c.get(k2, 'MISSING', expire_time=True)
                    if t is not False or p_ != 'MISSING' or d_ is not False or e2 != ('v2', None):
                        fail('alias', 'with k1 absent: touch(k1)=%r pop(k1)=%r delete(k1)=%r, k2 reads %r' % (t, p_, d_, e2))
                c[k1] = 'v1'
        if not equal:
            del c[k1]
            if k1 in c or c.get(k2) != 'v2' or len(c) != n_expected - 1:
                fail('alias', 'after del c[k1]: k1 in c=%r, get(k2)=%r, len=%d' % (k1 in c, c.get(k2), len(c)))
            if case['reopen']:
                c.close()
                if c.get(k2) != 'v2':
                    fail('alias', 'after reopen get(k2)=%r' % (c.get(k2),))
        nontrivial = case['how'] != 'independent' or (equal and type(k1) is not type(k2)) or (not equal and _py_eq(k1, k2))
        classes = ['how=' + case['how'], 'disk=' + disk, 'equal' if equal else 'distinct']
        if case['fill']:
            classes.append('paged')
        return {'nontrivial': nontrivial, 'classes': classes}


def expect_ids_keys(filler, k1, k2, equal):
    return list(filler) + ([k1] if equal else [k1, k2])


def _py_eq(a, b):
    try:
        return a == b
    except Exception:
        return False


def _kind(k1, k2):
    return '%s-%s' % (type(k1).__name__, type(k2).__name__)


class ShardedJSONKeys(SubCheck):
    """Key identity through FanoutCache(JSONDisk): keys with identical JSON address one entry (same oracle as C13's
    jsondisk_routing; kept here because it is a key-identity clause)."""

    name = 'sharded_json_keys'

    def examples(self, tier):
        return 40 if tier == 'quick' else 1500

    def strategy(self, tier):
        from . import c13

        return c13.JSONDiskRouting().strategy(tier)

    def execute(self, case, env):
        from . import c13

        try:
            return c13.JSONDiskRouting().execute(case, env)
        except Violation as v:
            raise Violation('C02/split/sharded-jsondisk/' + v.signature.rsplit('/', 1)[1], v.detail)


from ..fuzz import FuzzCampaign  # noqa: E402

SUBCHECKS = [Pairs(), ShardedJSONKeys()]
SUBCHECKS.append(FuzzCampaign('c02', SUBCHECKS[0], runs_quick=2000, runs_thorough=60000))
