"""C18 — data and settings persist and are shared by every handle on the directory."""

import json
import os
import pickle
import shutil
import subprocess
import sys
import threading

from hypothesis import strategies as st

from .. import common
from ..cacheops import DFLT, POLICIES, Runner, op_strategy
from ..common import HarnessError, Violation, enc, rebuild, short
from ..engine import SubCheck
from ..model import CacheModel, ident, ident_str, same, strict
from . import c01, c02, c03, c13

LEVEL = 'exploration'
RULE = (
    'histories (C03 alphabet) with persistence events inserted at arbitrary points: close + new object opened with NO '
    'settings arguments, a second simultaneous handle, pickle round trip, the next call made from another thread, from a '
    'forked child (parent and child both continue) or from a fresh interpreter; creation settings drawn over every '
    'DEFAULT_SETTINGS key and Disk/JSONDisk, checked on every new handle; FanoutCache and DjangoCache reopen/unpickle with '
    'non-default total size_limit, the directory spelled absolutely, with ~ or with an environment variable at creation and at reopening. Format: directories written by the vendored PINNED release (every key and value '
    'representation of C01/C02, tags, expiry, 3-shard fanout, Deque, Index) are read by the working tree item for item, '
    'appended to and re-read; a committed golden directory written once by the pinned tree is the fixed anchor. '
    'non-trivial = an event lands between two writes to the same key or the directory holds >= 3 representations; format '
    'cases with a pickled key, a file-backed value and >= 2 shards; distinct by SHA-1 of the case'
)
ASSUMPTIONS = [
    'the reference side of the format differential is golden/pinned_diskcache, a copy of the pinned commit; the system under test is always /repo',
    'Deque/Index reopen, unpickle and copy events are generated in C11/C12',
    'fresh-interpreter events run on the real clock, so they are only used with items that never expire',
]

EVENTS = ['reopen', 'second_handle', 'pickle', 'thread', 'fork', 'process', 'thread_close_in_txn']

SETTINGS = {
    'statistics': [0, 1],
    'tag_index': [0, 1],
    'eviction_policy': POLICIES,
    'size_limit': [2**30, 2**34, 10**7],
    'cull_limit': [0, 10, 3],
    'sqlite_auto_vacuum': [1, 1, 0, 2],
    'sqlite_cache_size': [2**13, 1000],
    'sqlite_journal_mode': ['wal', 'wal', 'truncate', 'delete'],
    'sqlite_mmap_size': [2**26, 0],
    'sqlite_synchronous': [1, 0, 2],
    'disk_min_file_size': [8, 2**15],
    'disk_pickle_protocol': [pickle.HIGHEST_PROTOCOL, 2, 0],
}

CHILD = r'''
import json, sys
sys.path.insert(0, %(verif)r)
from vlib import common
dc = common.import_repo()
req = common.dec(json.load(sys.stdin))
disk = getattr(dc, req['disk'])
c = dc.Cache(req['path'], disk=disk)
out = {'settings': {k: getattr(c, k, '<attribute missing>') for k in list(dc.DEFAULT_SETTINGS) + req.get('extra_settings', [])}}
op = req['op']
if op[0] == 'set':
    out['result'] = c.set(op[1], req['value'], tag=req.get('tag'))
elif op[0] == 'get':
    out['result'] = c.get(op[1], 'DFLT')
elif op[0] == 'delete':
    out['result'] = c.delete(op[1])
out['len'] = len(c)
out['keys'] = list(c)
c.close()
json.dump(common.enc(out), sys.stdout)
'''


class EventRunner(Runner):
    """Runner whose ops may be executed through another handle, thread, forked child or fresh interpreter."""

    def __init__(self, *a, **k):
        self.path = k.pop('path')
        self.disk_name = k.pop('disk_name')
        self.creation = k.pop('creation')
        Runner.__init__(self, *a, **k)
        self.extra_handles = []
        self.event_between_writes = False
        self.last_write_key = None
        self.pending_event = None
        self.awaiting = None
        self.events_done = []

    def check_settings(self, cache, how):
        import diskcache

        for key in list(diskcache.DEFAULT_SETTINGS) + [k for k in self.creation if k not in diskcache.DEFAULT_SETTINGS]:
            want = self.creation[key]
            if key == 'statistics':
                want = int(self.m.statistics)
            got = getattr(cache, key, '<attribute missing>')
            if got != want:
                raise Violation(
                    'C18/settings-lost/%s' % key,
                    'after %s the handle reports %s=%r, the cache was created with %r' % (how, key, got, want),
                )
        if type(cache.disk).__name__ != self.disk_name and how != 'reopen':
            raise Violation('C18/disk-class-lost', 'after %s the disk is %s, created with %s' % (how, type(cache.disk).__name__, self.disk_name))

    def new_handle(self):
        import diskcache

        return diskcache.Cache(self.path, disk=getattr(diskcache, self.disk_name))

    def do_event(self, ev):
        self.events_done.append(ev)
        if ev == 'reopen':
            self.c.close()
            self.c = self.new_handle()
            self.check_settings(self.c, 'close and reopen')
        elif ev == 'second_handle':
            h = self.new_handle()
            self.extra_handles.append(self.c)
            self.c = h
            self.check_settings(self.c, 'opening a second handle')
        elif ev == 'fork_in_txn':
            self.fork_in_txn()
        elif ev == 'thread_close_in_txn':
            self.thread_close_in_txn()
        elif ev == 'pickle':
            old = self.c
            self.c = pickle.loads(pickle.dumps(old))
            self.extra_handles.append(old)
            self.check_settings(self.c, 'pickle round trip')
        else:
            self.pending_event = ev

    def step(self, op):
        if op[0] == 'event':
            self.trace.append(op)
            if self.last_write_key is not None:
                self.awaiting = self.last_write_key
            self.do_event(op[1])
            return
        if op[0] in ('set', 'setitem', 'add', 'incr', 'decr'):
            if getattr(self, 'awaiting', None) is not None and ident(op[1]) == self.awaiting:
                self.event_between_writes = True
            self.awaiting = None
            self.last_write_key = ident(op[1])
        ev, self.pending_event = self.pending_event, None
        if ev is None or op[0] in ('advance', 'reopen', 'bulk_set', 'stats'):
            return Runner.step(self, op)
        if ev == 'thread':
            box = {}

            def target():
                try:
                    Runner.step(self, op)
                except BaseException as exc:
                    box['exc'] = exc
                finally:
                    self.c.close()  # the thread's own connection

            t = threading.Thread(target=target)
            t.start()
            t.join()
            if 'exc' in box:
                raise box['exc']
            return
        if ev == 'fork':
            return self.step_in_fork(op)
        if ev == 'process':
            return self.step_in_process(op)
        raise HarnessError('unknown event %r' % ev)

    def thread_close_in_txn(self):
        """Another thread uses the shared object and closes ITS connection while this thread has a block open: handles are
        per thread, so the block must be unaffected (both writes present afterwards)."""
        if self.creation.get('sqlite_journal_mode') != 'wal' or self.disk_name != 'Disk':
            return
        box = {}

        def other():
            try:
                box['len'] = len(self.c)
                self.c.close()
            except BaseException as exc:
                box['exc'] = exc

        try:
            with self.c.transact(retry=True):
                Runner.step(self, ('set', 'txn-key-1', ('s', 'one'), None, None))
                t = threading.Thread(target=other)
                t.start()
                t.join()
                Runner.step(self, ('set', 'txn-key-2', ('s', 'two'), None, None))
        except Violation:
            raise
        except Exception as exc:
            raise Violation('C18/close-in-other-thread/block-failed', 'a block failed with %r after another thread closed its own connection on the shared object' % (exc,))
        if 'exc' in box:
            raise Violation('C18/close-in-other-thread/raised', 'the other thread raised %r' % (box['exc'],))
        Runner.step(self, ('get', 'txn-key-1', DFLT, False, False, False))
        Runner.step(self, ('get', 'txn-key-2', DFLT, False, False, False))

    def fork_in_txn(self):
        """Fork while the parent has an open transaction.  NOT generated: on the unchanged tree the child's drop of the
        inherited connection makes the parent's COMMIT fail with 'disk I/O error' (SQLite forbids carrying a connection
        with an open transaction across fork); the property's fork events lie between calls.  Kept as a manual probe."""
        key = 'fork-txn-key'
        t0 = self.clock.peek()
        present = self.m.contains(key, t0, t0)
        n_before = len(self.m.items)
        with self.c.transact(retry=True):
            Runner.step(self, ('set', key, ('s', 'written-inside-the-block'), None, None))
            r, w = os.pipe()
            pid = os.fork()
            if pid == 0:
                try:
                    os.close(r)
                    try:
                        msg = ('ok', key in self.c, len(self.c))
                    except BaseException as exc:
                        msg = ('error', repr(exc))
                    os.write(w, pickle.dumps(msg))
                finally:
                    os._exit(0)
            os.close(w)
            data = b''
            while True:
                chunk = os.read(r, 65536)
                if not chunk:
                    break
                data += chunk
            os.close(r)
            os.waitpid(pid, 0)
        if not data:
            raise Violation('C18/fork/child-died', 'the child forked inside a transaction died')
        msg = pickle.loads(data)
        if msg[0] != 'ok':
            raise Violation('C18/fork/child-raised', 'child forked inside a transaction raised %s' % msg[1])
        if msg[1] != present or msg[2] != n_before:
            raise Violation(
                'C18/fork/child-sees-uncommitted',
                'a child forked while the parent had an open transaction saw (present=%r, len=%d); committed state was (present=%r, len=%d): '
                'it is using the inherited connection' % (msg[1], msg[2], present, n_before),
            )
        n = len(self.c)
        if n != len(self.m.items):
            self.fail('fork/parent-after-txn', 'after the block the parent sees len=%d, model %d' % (n, len(self.m.items)))

    def step_in_fork(self, op):
        """The child performs the call on the inherited object; the parent applies it to the model from the child's report."""
        r, w = os.pipe()
        pid = os.fork()
        if pid == 0:
            code = 0
            try:
                os.close(r)
                try:
                    Runner.step(self, op)
                    msg = ('ok', None)
                except Violation as v:
                    msg = ('violation', v.signature, v.detail)
                except BaseException as exc:
                    msg = ('error', repr(exc))
                os.write(w, pickle.dumps(msg))
            finally:
                os._exit(code)
        os.close(w)
        data = b''
        while True:
            chunk = os.read(r, 65536)
            if not chunk:
                break
            data += chunk
        os.close(r)
        os.waitpid(pid, 0)
        if not data:
            raise Violation('C18/fork/child-died', 'the forked child died while executing %s' % short(op))
        msg = pickle.loads(data)
        if msg[0] == 'violation':
            raise Violation(msg[1].replace('C18/', 'C18/in-forked-child/', 1), msg[2])
        if msg[0] == 'error':
            raise Violation('C18/fork/child-raised', 'forked child raised %s on %s' % (msg[1], short(op)))
        # advance the model as the child did (its comparison already validated the result)
        self.trace.append(op)
        t0, t1 = self.model_only(op)
        if op[0] in ('set', 'setitem', 'add', 'incr', 'decr'):
            self.reconcile(op, t0, t1, self.cull_limit)
        n = len(self.c)
        if n != len(self.m.items):
            self.fail('fork/parent-sees-child-write', 'after the child ran %s the parent sees len=%d, model %d' % (short(op), n, len(self.m.items)))

    def model_only(self, op):
        """Advance the model as the child did (the child's clock readings are not shared: use the parent's)."""
        name = op[0]
        t0 = self.clock.peek()
        for _ in range(16):  # the child's readings all lie inside (t0, t1]
            self.clock.time()
        t1 = self.clock.peek()
        m = self.m
        if name in ('set', 'setitem'):
            from ..cacheops import is_filey, mkval

            ttl = op[3] if len(op) > 3 else None
            tag = op[4] if len(op) > 4 else None
            m.set(op[1], mkval(op[2]), ttl, tag, t0, t1, is_filey(op[2], self.threshold))
        elif name == 'add':
            from ..cacheops import is_filey, mkval

            m.add(op[1], mkval(op[2]), op[3], op[4], t0, t1, is_filey(op[2], self.threshold))
        elif name in ('delete', 'del'):
            m.delete(op[1], t0, t1)
        elif name == 'pop':
            m.pop(op[1], t0, t1)
        elif name in ('get', 'getitem', 'read'):
            m.lookup(op[1], t0, t1)
        elif name == 'touch':
            m.touch(op[1], op[2], t0, t1)
        elif name in ('incr', 'decr'):
            old = m.items.get(ident(op[1]))
            if old is not None and m.live(old, t0, t1) and type(old.value) not in (int, float):
                return t0, t1  # the interpreter skips increments of non-numbers (outside the documented domain)
            try:
                m.incr(op[1], op[2] if name == 'incr' else -op[2], op[3], t0, t1)
            except KeyError:
                pass
        elif name == 'clear':
            m.clear()
        elif name == 'evict':
            m.evict(op[1])
        elif name == 'expire':
            m.expire(t0, t1)
        elif name == 'peekitem':
            try:
                m.peekitem(op[1], t0, t1)
            except KeyError:
                pass
        return t0, t1

    def step_in_process(self, op):
        # only for calls whose outcome does not depend on the clock
        if op[0] not in ('set', 'get', 'delete') or any(it.lo is not None for it in self.m.items.values()) or (op[0] == 'set' and (op[3] is not None)):
            return Runner.step(self, op)
        from ..cacheops import is_filey, mkval

        self.trace.append(op)
        req = {'path': self.path, 'disk': self.disk_name, 'op': list(op[:2]), 'value': mkval(op[2]) if op[0] == 'set' else None, 'extra_settings': [k for k in self.creation if k.startswith('disk_compress')], 'tag': op[4] if op[0] == 'set' else None}
        env = dict(os.environ, PYTHONDONTWRITEBYTECODE='1')
        p = subprocess.run([sys.executable, '-c', CHILD % {'verif': common.VERIF}], input=json.dumps(enc(req)), capture_output=True, text=True, env=env, timeout=120)
        if p.returncode != 0:
            raise Violation('C18/process/raised', 'a fresh interpreter failed on %s: %s' % (short(op), p.stderr[-600:]))
        out = common.dec(json.loads(p.stdout))
        t0 = self.clock.peek()
        t1 = t0
        if op[0] == 'set':
            self.m.set(op[1], mkval(op[2]), None, op[4], t0, t1, is_filey(op[2], self.threshold))
            exp = True
        elif op[0] == 'get':
            item = self.m.lookup(op[1], t0, t1)
            exp = DFLT if item is None else item.value
        else:
            exp = self.m.delete(op[1], t0, t1)
        if not same(out['result'], exp):
            self.fail('process/result', 'fresh interpreter: %s returned %s, model %s' % (short(op), short(out['result']), short(exp)))
        for key, want in self.creation.items():
            if key == 'statistics':
                want = int(self.m.statistics)
            if out['settings'].get(key) != want:
                raise Violation('C18/settings-lost/%s' % key, 'a fresh interpreter sees %s=%r, the cache was created with %r' % (key, out['settings'].get(key), want))
        if [ident(k) for k in out['keys']] != [ident(k) for k in self.m.keys()]:
            self.fail('process/contents', 'fresh interpreter lists %s, model %s' % (short(out['keys'], 300), short(self.m.keys(), 300)))
        n = len(self.c)
        if n != len(self.m.items):
            self.fail('process/parent-sees-write', 'after the other process ran %s the parent sees len=%d, model %d' % (short(op), n, len(self.m.items)))

    def close_all(self):
        for h in self.extra_handles + [self.c]:
            try:
                h.close()
            except Exception:
                pass


class Events(SubCheck):
    name = 'events'

    def examples(self, tier):
        return 100 if tier == 'quick' else 2500

    def strategy(self, tier):
        steps = 40 if tier == 'quick' else 120
        events = EVENTS if tier != 'quick' else ['reopen', 'fork', 'pickle', 'second_handle', 'thread', 'thread_close_in_txn'] * 3 + ['process']

        @st.composite
        def case(draw):
            creation = {k: draw(st.sampled_from(v)) for k, v in SETTINGS.items()}
            disk = draw(st.sampled_from(['Disk', 'Disk', 'Disk', 'JSONDisk']))
            if disk == 'JSONDisk':
                creation['disk_compress_level'] = draw(st.sampled_from([1, 0, 6, 9]))  # a setting of the Disk subclass
            keys = ['a', 'b', 'c', 'k7'] if disk == 'JSONDisk' else c03.cacheops.KEYS
            base = op_strategy(creation['disk_min_file_size'], keys=keys, bulk=False)
            if disk == 'JSONDisk':
                base = base.filter(lambda o: o[0] not in ('peekitem', 'iterkeys', 'read', 'incr', 'decr') and not (len(o) > 2 and type(o[2]) is tuple and o[2][0] in ('B', 'P', 'v')) and not (o[0] == 'get' and o[3]))
            ops = draw(st.lists(st.one_of(base, base, st.tuples(st.just('event'), st.sampled_from(events))), min_size=8, max_size=steps))
            return {'creation': creation, 'disk': disk, 'ops': ops}

        return case()

    def execute(self, case, env):
        import diskcache

        clock = c03.get_clock(env)
        path = env.scratch.fresh('pers')
        creation = dict(case['creation'])
        cache = diskcache.Cache(path, disk=getattr(diskcache, case['disk']), **creation)
        cfg = dict(creation)
        model = CacheModel(statistics=bool(creation['statistics']), policy=creation['eviction_policy'], protocol=creation['disk_pickle_protocol'])
        r = EventRunner(cache, model, clock, cfg, pid='C18', path=path, disk_name=case['disk'], creation=creation)
        jd = case['disk'] == 'JSONDisk'
        try:
            r.check_settings(cache, 'creation')
            r.run(case['ops'])
            r.do_event('reopen')
            if jd:
                for op in (('iter',), ('reversed',)):
                    r.step(op)
                for item in list(r.m.items.values()):
                    r.step(('get', item.key, DFLT, False, True, True))
            else:
                r.scan()
            reps = {type(it.value).__name__ + ('/file' if it.file else '') for it in r.m.items.values()}
            nontrivial = r.event_between_writes or (len(reps) >= 3 and bool(r.events_done))
            return {'nontrivial': nontrivial, 'classes': ['disk=' + case['disk']] + sorted({'event=' + e for e in r.events_done})}
        finally:
            r.close_all()
            env.scratch.drop(path)

    def selftest(self, env):
        c03.Random().selftest(env)


class ShardedSettings(SubCheck):
    """FanoutCache / DjangoCache: settings given at creation survive reopen and unpickle without arguments."""

    name = 'sharded_settings'

    def examples(self, tier):
        return 40 if tier == 'quick' else 800

    def strategy(self, tier):
        return st.fixed_dictionaries(
            {
                'kind': st.sampled_from(['fanout', 'fanout', 'django']),
                'shards': st.sampled_from([1, 2, 3, 8]),
                'size_limit': st.sampled_from([None, 2**30, 2**34, 10**7, 2**20]),
                'cull_limit': st.sampled_from([10, 0, 3]),
                'eviction_policy': st.sampled_from(POLICIES),
                'how': st.sampled_from(['reopen', 'pickle', 'reopen-twice']),
                'keys': st.lists(c02.natives, min_size=1, max_size=12),
                # how the directory is written when the cache is created and when it is opened again: the same directory
                # spelled absolutely, with ~ (HOME points at the scratch parent) or with an environment variable
                # the process that created the cache was killed after this many shard directories (0 = not): creation is
                # completed by the next open with the same arguments
                'partial': st.integers(0, 4),
                # ... and whether the kill fell before the next shard's directory was made or between making it and creating
                # its database (the directory is there, empty)
                'partial_dir_left': st.booleans(),
                'spell': st.tuples(st.sampled_from(['absolute', 'absolute', 'tilde', 'envvar']), st.sampled_from(['absolute', 'tilde', 'envvar'])),
            }
        )

    def execute(self, case, env):
        import sqlite3

        import diskcache

        path = env.scratch.fresh('shs')
        parent, base = os.path.split(path)
        saved = {k: os.environ.get(k) for k in ('HOME', 'VERIF_DIR_VAR')}
        os.environ['HOME'] = parent
        os.environ['VERIF_DIR_VAR'] = parent
        spelled = {'absolute': path, 'tilde': '~/' + base, 'envvar': '$VERIF_DIR_VAR/' + base}
        first, again = [spelled[x] for x in case.get('spell', ('absolute', 'absolute'))]
        shards = case['shards']
        kw = {'cull_limit': case['cull_limit'], 'eviction_policy': case['eviction_policy']}
        if case['size_limit'] is not None:
            kw['size_limit'] = case['size_limit']
        total = case['size_limit'] if case['size_limit'] is not None else 2**30
        handles = []
        try:
            if case['kind'] == 'fanout':
                fc = diskcache.FanoutCache(first, shards=shards, **kw)
                handles.append(fc)
                partial = case.get('partial', 0)
                if 0 < partial < shards:
                    import shutil

                    fc.close()
                    for i in range(partial, shards):
                        shutil.rmtree(os.path.join(path, '%03d' % i))
                    if case.get('partial_dir_left'):
                        os.mkdir(os.path.join(path, '%03d' % partial))
                    fc = diskcache.FanoutCache(first, shards=shards, **kw)
                    handles.append(fc)
                keys, seen = [], set()
                for k in case['keys']:
                    k = rebuild(k)
                    if ident_str(k) not in seen:  # numeric twins across shards are the recorded C13 finding
                        seen.add(ident_str(k))
                        keys.append(k)
                for n, k in enumerate(keys):
                    fc[k] = n
                if case['how'] == 'pickle':
                    fc2 = pickle.loads(pickle.dumps(fc))
                else:
                    fc.close()
                    fc2 = diskcache.FanoutCache(again, shards=shards)
                    if case['how'] == 'reopen-twice':
                        fc2.close()
                        fc2 = diskcache.FanoutCache(again, shards=shards)
                handles.append(fc2)
                view = fc2
            else:
                from diskcache.djangocache import DjangoCache

                dj = DjangoCache(first, {'SHARDS': shards, 'OPTIONS': kw})
                handles.append(dj)
                keys = ['k%d' % n for n in range(len(case['keys']))]
                for n, k in enumerate(keys):
                    dj.set(k, n, None)
                dj.close()
                dj2 = DjangoCache(again, {'SHARDS': shards})
                handles.append(dj2)
                view = dj2._cache
                keys = [dj2.make_key(k) for k in keys]
            last = {}
            for n, k in enumerate(keys):
                last[ident_str(k)] = (k, n)
            for k, n in last.values():
                if view.get(k, 'MISSING') != n:
                    raise Violation('C18/sharded/item-lost', 'after %s key %r reads %r, stored %r' % (case['how'], k, view.get(k, 'MISSING'), n))
            for i in range(shards):
                db = os.path.join(path, '%03d' % i, 'cache.db')
                if not os.path.exists(db):
                    raise Violation('C18/format/shard-layout', 'shard %d has no database at <directory>/%03d/cache.db (released layout); directory holds %r' % (i, i, sorted(os.listdir(path))))
                con = sqlite3.connect(db)
                try:
                    s = dict(con.execute('SELECT key, value FROM Settings').fetchall())
                finally:
                    con.close()
                if s['size_limit'] != total / shards:
                    raise Violation(
                        'C18/settings-lost/fanout-size_limit',
                        '%s created with total size_limit %r over %d shards; after %s without arguments shard %d persists size_limit %r (expected %r)'
                        % (case['kind'], total, shards, case['how'], i, s['size_limit'], total / shards),
                    )
                for key in ('cull_limit', 'eviction_policy'):
                    if s[key] != kw[key]:
                        raise Violation('C18/settings-lost/fanout-%s' % key, 'shard %d persists %s=%r after %s, created with %r' % (i, key, s[key], case['how'], kw[key]))
            if os.path.realpath(view.directory) != os.path.realpath(path):
                raise Violation('C18/sharded/directory', 'opened as %r the cache reports directory %r, expected %r' % (again, view.directory, path))
            return {'nontrivial': case['size_limit'] not in (None, 2**30) or shards >= 2, 'classes': ['kind=' + case['kind'], 'how=' + case['how'], 'spelled=%s/%s' % tuple(case.get('spell', ('absolute', 'absolute')))] + (['creation-interrupted' + ('/empty-shard-directory' if case.get('partial_dir_left') else '')] if 0 < case.get('partial', 0) < shards and case['kind'] == 'fanout' else [])}
        finally:
            for h in handles:
                try:
                    h.close()
                except Exception:
                    pass
            for k, v in saved.items():
                if v is None:
                    os.environ.pop(k, None)
                else:
                    os.environ[k] = v
            env.scratch.drop(path)


# ---------------------------------------------------------------------------------------------
# released on-disk format: pinned writes, working tree reads


def value_strategy():
    return st.one_of(
        c01.scalars.filter(lambda v: not (type(v) is float and v != v)),
        c01.containers.filter(lambda v: strict(v) == strict(v) and 'nan' not in repr(v)),
        st.tuples(st.just('big-bytes'), st.integers(0, 255)),
        st.tuples(st.just('big-text'), st.sampled_from(['a', 'é', '\n', 'x\ny'])),
        st.tuples(st.just('big-pickle'), st.integers(0, 9)),
    )


def mkbig(v):
    if type(v) is tuple and len(v) == 2 and v[0] == 'big-bytes':
        return bytes([v[1]]) * 40000
    if type(v) is tuple and len(v) == 2 and v[0] == 'big-text':
        return (v[1] * 40000)[:40000]
    if type(v) is tuple and len(v) == 2 and v[0] == 'big-pickle':
        return {'n': v[1], 'pad': ['p'] * 20000}
    return v


class Format(SubCheck):
    name = 'format_pinned_writes'

    def examples(self, tier):
        return 25 if tier == 'quick' else 600

    def strategy(self, tier):
        item = st.tuples(c02.keys, value_strategy(), st.sampled_from([None, 't', 3]), st.sampled_from([None, 10**9]))
        return st.fixed_dictionaries(
            {
                'layout': st.sampled_from(['cache', 'cache', 'fanout3', 'fanout2', 'deque', 'index']),
                'protocol': st.sampled_from([pickle.HIGHEST_PROTOCOL, 2, 0]),
                'min_file_size': st.sampled_from([2**15, 8]),
                'items': st.lists(item, min_size=1, max_size=14),
            }
        )

    def execute(self, case, env):
        import diskcache

        p = c13.pinned()
        path = env.scratch.fresh('fmt')
        layout = case['layout']
        kw = {'disk_pickle_protocol': case['protocol'], 'disk_min_file_size': case['min_file_size']}
        items = [(rebuild(k), mkbig(rebuild(v)), tag, ttl) for k, v, tag, ttl in case['items'] if c13.seed_independent(k)]
        if not items:
            return {'nontrivial': False, 'classes': ['skipped']}
        expect = {}
        order = []
        # ---- written by the pinned release ------------------------------------------------------
        if layout == 'cache':
            w = p.Cache(path, **kw)
            for k, v, tag, ttl in items:
                w.set(k, v, expire=ttl, tag=tag)
                expect[ident_str(k)] = (k, v, tag)
            w.close()
        elif layout.startswith('fanout'):
            n = int(layout[-1])
            w = p.FanoutCache(path, shards=n, **kw)
            first_type = {}
            for k, v, tag, ttl in items:
                if first_type.setdefault(ident_str(k), type(k)) is not type(k):
                    continue  # numeric twins across shards are the recorded C13 finding
                w.set(k, v, expire=ttl, tag=tag)
                expect[ident_str(k)] = (k, v, tag)
            w.close()
        elif layout == 'deque':
            w = p.Deque.fromcache(p.Cache(path, eviction_policy='none', **kw))
            for k, v, tag, ttl in items:
                w.append(v)
                order.append(v)
            w.cache.close()
        else:
            w = p.Index.fromcache(p.Cache(path, eviction_policy='none', **kw))
            for k, v, tag, ttl in items:
                w[k] = v
                expect[ident_str(k)] = (k, v, tag)
            w.cache.close()
        # ---- read by the working tree -------------------------------------------------------------
        classes = ['layout=' + layout]
        handle = None
        try:
            if layout == 'cache':
                handle = r = diskcache.Cache(path)
                getter = lambda k: r.get(k, 'MISSING', tag=True)
            elif layout.startswith('fanout'):
                handle = r = diskcache.FanoutCache(path, shards=int(layout[-1]))
                getter = lambda k: r.get(k, 'MISSING', tag=True)
            elif layout == 'deque':
                handle = diskcache.Deque(directory=path)
                got = list(handle)
                if strict(got) != strict(order):
                    raise Violation('C18/format/deque', 'a Deque written by the pinned release reads back as %s, written %s' % (short(got, 300), short(order, 300)))
                handle.append('new')
                if handle[-1] != 'new' or len(handle) != len(order) + 1:
                    raise Violation('C18/format/deque-append', 'appending to a pinned-written Deque failed')
                handle = handle.cache
                return {'nontrivial': len(order) >= 2, 'classes': classes}
            else:
                ix = diskcache.Index(path)
                handle = ix.cache
                r = ix
                getter = lambda k: (ix.get(k, 'MISSING'), expect[ident_str(k)][2])
                want_order = []
                seen = set()
                for k, v, tag, ttl in items:
                    i = ident_str(k)
                    if i not in seen:
                        seen.add(i)
                        want_order.append(i)
                got_order = [ident_str(k) for k in ix]
                if got_order != want_order:
                    raise Violation('C18/format/index-order', 'Index written by the pinned release iterates %s, written order %s' % (short(got_order, 300), short(want_order, 300)))
            for i, (k, v, tag) in expect.items():
                got = getter(k)
                if not (type(got) is tuple and len(got) == 2 and same(got[0], v) and same(got[1], tag)):
                    raise Violation(
                        'C18/format/item/%s' % type(k).__name__,
                        'written by the pinned release: key %s (%s) -> %s tag %r; the working tree reads %s\nlayout=%s protocol=%r min_file_size=%r'
                        % (short(k, 80), type(k).__name__, short(v, 80), tag, short(got, 120), layout, case['protocol'], case['min_file_size']),
                    )
            if len(r) != len(expect):
                raise Violation('C18/format/len', 'pinned wrote %d items, the working tree counts %d' % (len(expect), len(r)))
            keys_back = sorted(ident_str(k) for k in r)
            if keys_back != sorted(expect):
                raise Violation('C18/format/keys', 'keys listed by the working tree %s differ from those written %s' % (short(keys_back, 300), short(sorted(expect), 300)))
            # the working tree can also append and the settings are the written ones
            r['appended-by-working-tree'] = 1
            if r['appended-by-working-tree'] != 1:
                raise Violation('C18/format/append', 'cannot append to a directory written by the pinned release')
            if layout == 'cache':
                if r.disk_pickle_protocol != case['protocol'] or r.disk_min_file_size != case['min_file_size']:
                    raise Violation('C18/format/settings', 'settings written by the pinned release are not picked up')
            pick = any(ident(k)[0] == 'obj' for k, _, _ in expect.values())
            filev = any(type(v) in (bytes, str, dict) and len(v) >= 20000 if hasattr(v, '__len__') else False for _, v, _ in expect.values())
            nontrivial = (pick and filev) or (layout.startswith('fanout') and len(expect) >= 3)
            return {'nontrivial': nontrivial, 'classes': classes + (['pickled-key'] if pick else []) + (['file-value'] if filev else [])}
        finally:
            try:
                if handle is not None:
                    handle.close()
            except Exception:
                pass
            env.scratch.drop(path)


class GoldenDir(SubCheck):
    """The committed directory written once by the pinned tree (golden/dir-5.6.3.tar) is still fully readable."""

    name = 'golden_directory'
    exhaustive = True

    def examples(self, tier):
        return 0

    def enumerate(self, tier):
        yield {'archive': 'golden/dir-5.6.3.tar', 'manifest': 'golden/dir-5.6.3.json'}

    def execute(self, case, env):
        import tarfile

        import diskcache

        root = env.scratch.fresh('gold')
        os.makedirs(root)
        with tarfile.open(os.path.join(common.VERIF, case['archive'])) as tf:
            tf.extractall(root)
        man = common.dec(json.load(open(os.path.join(common.VERIF, case['manifest']))))
        n = 0
        try:
            c = diskcache.Cache(os.path.join(root, 'cache'))
            try:
                for k, v, tag in man['cache']:
                    got = c.get(k, 'MISSING', tag=True)
                    if not (same(got[0], v) and same(got[1], tag)):
                        raise Violation('C18/golden/item/%s' % type(k).__name__, 'golden cache: key %s reads %s, recorded %s' % (short(k, 80), short(got, 120), short((v, tag), 120)))
                    n += 1
                if len(c) != len(man['cache']):
                    raise Violation('C18/golden/len', 'golden cache holds %d items, recorded %d' % (len(c), len(man['cache'])))
                if [ident_str(k) for k in c] != [ident_str(k) for k, _, _ in man['cache']]:
                    raise Violation('C18/golden/order', 'golden cache iterates in a different order')
                warns = common.run_check(c)
                if warns:
                    raise Violation('C18/golden/check', 'check() reports %s on the golden directory' % short(warns, 300))
            finally:
                c.close()
            f = diskcache.FanoutCache(os.path.join(root, 'fanout'), shards=3)
            try:
                for k, v, tag in man['fanout']:
                    got = f.get(k, 'MISSING', tag=True)
                    if not (same(got[0], v) and same(got[1], tag)):
                        raise Violation('C18/golden/fanout-item/%s' % type(k).__name__, 'golden fanout: key %s reads %s, recorded %s' % (short(k, 80), short(got, 120), short((v, tag), 120)))
                    n += 1
            finally:
                f.close()
            d = diskcache.Deque(directory=os.path.join(root, 'deque'))
            try:
                if strict(list(d)) != strict(man['deque']):
                    raise Violation('C18/golden/deque', 'golden deque reads %s' % short(list(d), 200))
                n += len(man['deque'])
            finally:
                d.cache.close()
            ix = diskcache.Index(os.path.join(root, 'index'))
            try:
                if strict(list(ix.items())) != strict([tuple(x) for x in man['index']]):
                    raise Violation('C18/golden/index', 'golden index reads %s' % short(list(ix.items()), 200))
                n += len(man['index'])
            finally:
                ix.cache.close()
        finally:
            shutil.rmtree(root, ignore_errors=True)
        return {'count': n, 'nontrivial_keys': ['golden/%d' % i for i in range(n)], 'classes': ['golden']}


SUBCHECKS = [Events(), ShardedSettings(), Format(), GoldenDir()]
