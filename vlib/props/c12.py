"""C12 — Index is a persistent insertion-ordered dictionary."""

import pickle
from collections import OrderedDict

from hypothesis import strategies as st

from ..common import HarnessError, Violation, short
from ..conc import fmt, io_selftest, mark_interleaved, run_scheduled
from ..engine import SubCheck
from ..model import same, strict
from ..sched import linearize, overlaps

LEVEL = 'exploration'
RULE = (
    'sequential: generated sequences over [k]=v, [k], del, get, pop(+default), popitem(last), peekitem, setdefault, '
    'update (mapping/pairs/kwargs), keys/values/items views, ==/!= against OrderedDict (ordered), dict (unordered) and '
    'another Index, iter, reversed, clear, len, reopen, unpickle; keys str/int/float (1 and 1.0)/bytes/tuples, values '
    'inline and file-backed; Index(...), FanoutCache.index, DjangoCache.index, each with or without the underlying cache reset to a size_limit of 1 byte; oracle = collections.OrderedDict step by '
    'step (results, exception types, list(items())). concurrent: 2-3 clients doing lookups, replacements, setdefault '
    'and popitem on shared keys under generated statement-level schedules; oracle = linearizability with NO tolerated '
    'miss. non-trivial = >= 3 method kinds with a re-assignment of an existing key or a persistence event; concurrent: '
    'a lookup overlapping a replacement of the same key with interleaved statements; distinct by SHA-1 of the case'
)
ASSUMPTIONS = [
    'True is kept out of key alphabets that contain 1 (documented serialization identity, not a defect)',
    'concurrent clients are threads with separate SQLite connections on one directory (and forked processes in concurrent_processes), timeout=0',
]

KEYS = ['a', 'b', 'c', 1, 1.0, 2, b'a', ('t', 1), 'key-long']
MISSING = 'MISSING'


def val_strategy():
    return st.one_of(
        st.integers(-5, 5),
        st.sampled_from(['', 'x', None, 2.5, (1, 2)]),
        st.tuples(st.just('B'), st.integers(0, 255)),  # file-backed bytes
        st.tuples(st.just('P'), st.integers(0, 9)),  # file-backed pickle
    )


def mkv(v):
    if type(v) is tuple and len(v) == 2 and v[0] == 'B':
        return bytes([v[1]]) * 40
    if type(v) is tuple and len(v) == 2 and v[0] == 'P':
        return {'n': v[1], 'pad': 'p' * 40}
    return v


def seq_ops():
    k = st.sampled_from(KEYS)
    v = val_strategy()
    b = st.booleans()
    pairs = st.lists(st.tuples(k, v), max_size=3)
    return st.one_of(
        st.tuples(st.just('set'), k, v),
        st.tuples(st.just('set'), k, v),
        st.tuples(st.just('set'), k, v),
        st.tuples(st.just('get'), k),
        st.tuples(st.just('getitem'), k),
        st.tuples(st.just('del'), k),
        st.tuples(st.just('pop'), k, b),
        st.tuples(st.just('popitem'), b),
        st.tuples(st.just('peekitem'), b),
        st.tuples(st.just('setdefault'), k, v),
        st.tuples(st.just('update_map'), pairs),
        st.tuples(st.just('bulk'), st.integers(101, 230)),  # more than one 100-row page for iteration/views
        st.tuples(st.just('update_pairs'), pairs),
        st.tuples(st.just('update_kwargs'), st.lists(st.tuples(st.sampled_from(['a', 'b', 'zz']), v), max_size=2)),
        st.tuples(st.just('views')),
        st.tuples(st.just('contains'), k),
        st.tuples(st.just('eq'), st.sampled_from(['same-od', 'rev-od', 'same-dict', 'shuffled-dict', 'other', 'index', 'rev-index', 'dict-other-key-none', 'dict-other-key', 'dict-other-value', 'od-other-value'])),
        st.tuples(st.just('iter')),
        st.tuples(st.just('clear')),
        st.tuples(st.just('len')),
        st.tuples(st.just('reopen')),
        st.tuples(st.just('pickle')),
    )


def outcome(fn):
    try:
        return ('ok', fn())
    except Exception as exc:
        return ('exc', type(exc).__name__)


class Sequential(SubCheck):
    name = 'sequential'

    def examples(self, tier):
        return 150 if tier == 'quick' else 4000

    def strategy(self, tier):
        return st.fixed_dictionaries(
            {
                'origin': st.sampled_from(['index', 'index', 'fanout', 'django']),
                # the underlying cache's size limit is lowered below what it already occupies: an Index must not evict anyway
                'pressure': st.booleans(),
                'ops': st.lists(seq_ops(), min_size=1, max_size=40 if tier == 'quick' else 100),
            }
        )

    def execute(self, case, env):
        import diskcache

        path = env.scratch.fresh('ix')
        origin = case['origin']
        holder = None
        if origin == 'index':
            cache = diskcache.Cache(path, eviction_policy='none', disk_min_file_size=8)
            ix = diskcache.Index.fromcache(cache)
        elif origin == 'fanout':
            holder = diskcache.FanoutCache(path, shards=2, disk_min_file_size=8)
            ix = holder.index('sub/ix')
        else:
            from diskcache.djangocache import DjangoCache

            holder = DjangoCache(path, {'SHARDS': 2})
            ix = holder.index('ix')
        if case.get('pressure'):
            ix.cache.reset('size_limit', 1)
        od = OrderedDict()
        extra = []
        kinds = set()
        reassigned = False
        persisted = False
        trace = []

        def fail(what, detail):
            raise Violation('C12/%s' % what, '%s\norigin=%s\nhistory tail:\n  %s' % (detail, origin, '\n  '.join(short(o, 150) for o in trace[-10:])))

        def cmp(op, real, exp):
            if real[0] != exp[0] or (real[0] == 'exc' and real[1] != exp[1]):
                fail(op[0] + '/result', 'op %s: Index %s, OrderedDict %s' % (short(op), short(real), short(exp)))
            if real[0] == 'ok' and not same(real[1], exp[1]):
                fail(op[0] + '/result', 'op %s: Index %s, OrderedDict %s' % (short(op), short(real[1]), short(exp[1])))

        try:
            for op in case['ops']:
                trace.append(op)
                name = op[0]
                kinds.add(name)
                if name == 'set':
                    if op[1] in od:
                        reassigned = True
                    v = mkv(op[2])
                    cmp(op, outcome(lambda: ix.__setitem__(op[1], v)), outcome(lambda: od.__setitem__(op[1], v)))
                elif name == 'get':
                    cmp(op, outcome(lambda: ix.get(op[1], MISSING)), outcome(lambda: od.get(op[1], MISSING)))
                elif name == 'getitem':
                    cmp(op, outcome(lambda: ix[op[1]]), outcome(lambda: od[op[1]]))
                elif name == 'del':
                    cmp(op, outcome(lambda: ix.__delitem__(op[1])), outcome(lambda: od.__delitem__(op[1])))
                elif name == 'pop':
                    if op[2]:
                        cmp(op, outcome(lambda: ix.pop(op[1], MISSING)), outcome(lambda: od.pop(op[1], MISSING)))
                    else:
                        cmp(op, outcome(lambda: ix.pop(op[1])), outcome(lambda: od.pop(op[1])))
                elif name == 'popitem':
                    cmp(op, outcome(lambda: ix.popitem(last=op[1])), outcome(lambda: od.popitem(last=op[1])))
                elif name == 'peekitem':
                    def od_peek():
                        if not od:
                            raise KeyError('empty')
                        return next(reversed(od.items())) if op[1] else next(iter(od.items()))

                    cmp(op, outcome(lambda: ix.peekitem(last=op[1])), outcome(od_peek))
                elif name == 'setdefault':
                    v = mkv(op[2])
                    cmp(op, outcome(lambda: ix.setdefault(op[1], v)), outcome(lambda: od.setdefault(op[1], v)))
                elif name == 'update_map':
                    m = OrderedDict((k, mkv(v)) for k, v in op[1])
                    if any(k in od for k in m):
                        reassigned = True
                    cmp(op, outcome(lambda: ix.update(m)), outcome(lambda: od.update(m)))
                elif name == 'bulk':
                    m = OrderedDict((('bulk', j) if j % 2 else 'bulk%03d' % j, j) for j in range(op[1]))
                    cmp(op, outcome(lambda: ix.update(m)), outcome(lambda: od.update(m)))
                    cmp(op, outcome(lambda: list(reversed(ix))), outcome(lambda: list(reversed(od))))
                elif name == 'update_pairs':
                    ps = [(k, mkv(v)) for k, v in op[1]]
                    if any(k in od for k, _ in ps):
                        reassigned = True
                    cmp(op, outcome(lambda: ix.update(ps)), outcome(lambda: od.update(ps)))
                elif name == 'update_kwargs':
                    kw = {k: mkv(v) for k, v in op[1]}
                    cmp(op, outcome(lambda: ix.update(**kw)), outcome(lambda: od.update(**kw)))
                elif name == 'views':
                    cmp(op, outcome(lambda: list(ix.keys())), outcome(lambda: list(od.keys())))
                    cmp(op, outcome(lambda: list(ix.values())), outcome(lambda: list(od.values())))
                    cmp(op, outcome(lambda: list(ix.items())), outcome(lambda: list(od.items())))
                    cmp(op, outcome(lambda: (len(ix.keys()), len(ix.values()), len(ix.items()))), outcome(lambda: (len(od),) * 3))
                    cmp(op, outcome(lambda: [k in ix.keys() for k in KEYS]), outcome(lambda: [k in od.keys() for k in KEYS]))
                    if od:
                        first = next(iter(od.items()))
                        cmp(op, outcome(lambda: first in ix.items()), ('ok', True))
                        cmp(op, outcome(lambda: (first[0], 'nope') in ix.items()), ('ok', False))
                elif name == 'contains':
                    cmp(op, outcome(lambda: op[1] in ix), outcome(lambda: op[1] in od))
                elif name == 'eq':
                    kind = op[1]
                    items = list(od.items())
                    if kind == 'same-od':
                        other = OrderedDict(items)
                    elif kind == 'rev-od':
                        other = OrderedDict(reversed(items))
                    elif kind == 'same-dict':
                        other = dict(items)
                    elif kind == 'shuffled-dict':
                        other = dict(reversed(items))
                    elif kind == 'other':
                        other = OrderedDict(items[:-1] + [('zzz', 1)])
                    elif kind == 'dict-other-key-none':
                        other = dict(items[:-1] + [('zzz', None)])
                    elif kind == 'dict-other-key':
                        other = dict(items[:-1] + [('zzz', items[-1][1] if items else 1)])
                    elif kind == 'dict-other-value':
                        other = dict(items[:-1] + ([(items[-1][0], 'changed')] if items else []))
                    elif kind == 'od-other-value':
                        other = OrderedDict(items[:-1] + ([(items[-1][0], None)] if items else []))
                    else:
                        p2 = env.scratch.fresh('ix2')
                        src = items if kind == 'index' else list(reversed(items))
                        other = diskcache.Index.fromcache(diskcache.Cache(p2, eviction_policy='none', disk_min_file_size=8), src)
                        extra.append((other, p2))
                    ref = OrderedDict(other.items()) if isinstance(other, diskcache.Index) else other
                    cmp(op, outcome(lambda: ix == other), outcome(lambda: od == ref))
                    cmp(op, outcome(lambda: ix != other), outcome(lambda: od != ref))
                elif name == 'iter':
                    cmp(op, outcome(lambda: list(ix)), outcome(lambda: list(od)))
                    cmp(op, outcome(lambda: list(reversed(ix))), outcome(lambda: list(reversed(od))))
                elif name == 'clear':
                    cmp(op, outcome(ix.clear), outcome(od.clear))
                elif name == 'len':
                    pass
                elif name == 'reopen':
                    persisted = True
                    d = ix.directory
                    ix.cache.close()
                    ix = diskcache.Index(d)
                elif name == 'pickle':
                    persisted = True
                    ix = pickle.loads(pickle.dumps(ix))
                if len(ix) != len(od):
                    fail(name + '/len', 'after %s: len(Index)=%d, len(OrderedDict)=%d' % (short(op), len(ix), len(od)))
                got = list(ix.items())
                want = list(od.items())
                if strict(got) != strict(want):
                    fail(name + '/contents', 'after %s: Index items %s, OrderedDict items %s' % (short(op), short(got, 300), short(want, 300)))
            nontrivial = len(kinds) >= 3 and (reassigned or persisted)
            return {'nontrivial': nontrivial, 'classes': ['origin=' + origin] + (['persisted'] if persisted else []) + (['size-pressure'] if case.get('pressure') else [])}
        finally:
            try:
                ix.cache.close()
            except Exception:
                pass
            if holder is not None:
                try:
                    holder.close()
                except Exception:
                    pass
            for other, p2 in extra:
                other.cache.close()
                env.scratch.drop(p2)
            env.scratch.drop(path)


# ---------------------------------------------------------------------------------------------
# concurrent

CKEYS = ['x', 'y']


def conc_op(client, idx):
    k = st.sampled_from(CKEYS)
    filev = st.just(('B', 16 * client + idx + 1))
    inline = st.just(100 * client + idx)
    v = st.one_of(filev, filev, inline)
    return st.one_of(
        st.tuples(st.just('getitem'), k),
        st.tuples(st.just('getitem'), k),
        st.tuples(st.just('getitem'), k),
        st.tuples(st.just('set'), k, v),
        st.tuples(st.just('set'), k, v),
        st.tuples(st.just('setdefault'), k, v),
        st.tuples(st.just('popitem'), st.booleans()),
        st.tuples(st.just('contains'), k),
        st.tuples(st.just('len')),
        st.tuples(st.just('del'), k),  # KeyError when the key is absent: a transaction that rolls back
        st.tuples(st.just('del'), st.just('never-there')),
        st.tuples(st.just('reopen')),  # a further handle on the directory comes and goes (unpickling constructs one)
    )


@st.composite
def conc_case(draw):
    n = draw(st.integers(2, 3))
    progs = [[draw(conc_op(c, i)) for i in range(draw(st.integers(1, 4)))] for c in range(n)]
    init = []
    for k in CKEYS:
        choice = draw(st.sampled_from(['absent', 'inline', 'file', 'file']))
        if choice == 'inline':
            init.append((k, 7))
        elif choice == 'file':
            init.append((k, ('B', 250 if k == 'x' else 251)))
    schedule = draw(st.lists(st.tuples(st.integers(0, n - 1), st.one_of(st.integers(1, 8), st.sampled_from([12, 16, 24, 40]))), max_size=14))
    # 'shared': the threads use ONE Index object (what FanoutCache.index / DjangoCache.index hand out), 'own': one object each
    return {'init': init, 'progs': progs, 'schedule': schedule, 'mode': draw(st.sampled_from(['own', 'own', 'shared']))}


def unmkv(v):
    if type(v) is bytes:
        if v and v == bytes([v[0]]) * len(v) and len(v) == 40:
            return ('B', v[0])
        return ('MIXED', v[:8].hex(), len(v))
    return v


def do_conc(ix, op):
    name = op[0]
    try:
        if name == 'getitem':
            return ('ok', unmkv(ix[op[1]]))
        if name == 'set':
            ix[op[1]] = mkv(op[2])
            return ('ok', None)
        if name == 'setdefault':
            return ('ok', unmkv(ix.setdefault(op[1], mkv(op[2]))))
        if name == 'popitem':
            k, v = ix.popitem(last=op[1])
            return ('ok', (k, unmkv(v)))
        if name == 'contains':
            return ('ok', op[1] in ix)
        if name == 'len':
            return ('ok', len(ix))
        if name == 'del':
            del ix[op[1]]
            return ('ok', None)
        if name == 'reopen':
            other = pickle.loads(pickle.dumps(ix))
            other.cache.close()
            return ('ok', None)
    except Exception as exc:
        return ('exc', type(exc).__name__)
    raise HarnessError('unknown op %r' % (op,))


def conc_apply(state, call):
    """state: tuple of (key, value) in insertion order."""
    d = OrderedDict(state)
    op, res = call.op, call.result
    name = op[0]
    if name == 'getitem':
        exp = ('ok', d[op[1]]) if op[1] in d else ('exc', 'KeyError')
    elif name == 'set':
        d[op[1]] = op[2]
        exp = ('ok', None)
    elif name == 'setdefault':
        exp = ('ok', d.setdefault(op[1], op[2]))
    elif name == 'popitem':
        exp = ('ok', d.popitem(last=op[1])) if d else ('exc', 'KeyError')
    elif name == 'contains':
        exp = ('ok', op[1] in d)
    elif name == 'len':
        exp = ('ok', len(d))
    elif name == 'del':
        exp = ('ok', None) if op[1] in d else ('exc', 'KeyError')
        d.pop(op[1], None)
    elif name == 'reopen':
        exp = ('ok', None)
    else:
        raise HarnessError('model: unknown op %r' % (op,))
    return tuple(d.items()), exp == res


class Concurrent(SubCheck):
    name = 'concurrent'

    def examples(self, tier):
        return 250 if tier == 'quick' else 8000

    def strategy(self, tier):
        return conc_case()

    def execute(self, case, env):
        import diskcache

        n = len(case['progs'])

        def open_clients(path):
            caches = [diskcache.Cache(path, timeout=0, eviction_policy='none', disk_min_file_size=8) for _ in range(1 if case.get('mode') == 'shared' else n)]
            ixs = [diskcache.Index.fromcache(c) for c in caches]
            for k, v in case['init']:
                ixs[0][k] = mkv(v)
            return (ixs * n if case.get('mode') == 'shared' else ixs), caches

        calls, sched = run_scheduled(env, case['progs'], case['schedule'], open_clients, do_conc, 'C12', warm=lambda ix: ix.cache._sql, final_ops=[('getitem', 'x'), ('getitem', 'y'), ('len',), ('popitem', False), ('popitem', False)])
        if sched.limit_hit:
            return {'nontrivial': False, 'classes': ['step-limit']}
        mark_interleaved(calls, sched.trace)
        for c in calls:
            if c.result[0] == 'exc' and c.result[1] != 'KeyError':
                raise Violation('C12/unexpected-exception/%s' % c.result[1], 'call %r\n%s' % (c, fmt(calls)))
        init_state = tuple(case['init'])
        witness = linearize(calls, init_state, conc_apply, lambda s: s)
        if witness is None:
            # classify: a lookup that failed while a replacement of the same key overlapped it
            trigger = 'other'
            present = {k for k, _ in init_state}
            for c in calls:
                if c.op[0] == 'getitem' and c.result == ('exc', 'KeyError'):
                    if any(o.client != c.client and o.op[0] == 'set' and o.op[1] == c.op[1] and overlaps(o, c) for o in calls):
                        if not any(o.op[0] == 'popitem' for o in calls) and (c.op[1] in present or any(o.op[0] in ('set', 'setdefault') and o.op[1] == c.op[1] and o.res < c.inv for o in calls)):
                            trigger = 'lookup-overlapping-file-replace'
                    elif trigger == 'other' and any(o.client != c.client and o.op[0] == 'popitem' and overlaps(o, c) for o in calls):
                        trigger = 'lookup-overlapping-popitem'
            raise Violation('C12/linearizability/%s' % trigger, 'no sequential order explains these results (initial %r):\n%s' % (init_state, fmt(calls)))
        nontrivial = any(
            a.op[0] == 'getitem' and b.op[0] == 'set' and a.op[1] == b.op[1] and a.client != b.client and overlaps(a, b) and (a.interleaved or b.interleaved)
            for a in calls
            for b in calls
        )
        return {'nontrivial': nontrivial, 'classes': ['clients=%d' % n, 'mode=' + case.get('mode', 'own')]}

    def selftest(self, env):
        io_selftest(env)


class ProcessConcurrent(Concurrent):
    name = 'concurrent_processes'

    def examples(self, tier):
        return 30 if tier == 'quick' else 1500

    def execute(self, case, env):
        import diskcache

        from ..procsched import run_scheduled_procs

        def setup(path):
            base = diskcache.Cache(path, timeout=0, eviction_policy='none', disk_min_file_size=8)
            ix = diskcache.Index.fromcache(base)
            for k, v in case['init']:
                ix[k] = mkv(v)
            return base

        def make_client(path, shared, i):
            c = diskcache.Cache(path, timeout=0)
            c._sql
            return diskcache.Index.fromcache(c)

        finals = [('getitem', 'x'), ('getitem', 'y'), ('len',), ('popitem', False), ('popitem', False)]
        calls, run = run_scheduled_procs(env, case['progs'], case['schedule'], setup, make_client, do_conc, 'C12', final_ops=finals)
        if run.limit_hit:
            return {'nontrivial': False, 'classes': ['step-limit']}
        mark_interleaved(calls, run.trace)
        for c in calls:
            if c.result[0] == 'exc' and c.result[1] != 'KeyError':
                raise Violation('C12/unexpected-exception/%s' % c.result[1], 'call %r\n%s' % (c, fmt(calls)))
        init_state = tuple(case['init'])
        if linearize(calls, init_state, conc_apply, lambda s: s) is None:
            raise Violation('C12/linearizability/processes', 'no sequential order explains these results (initial %r):\n%s' % (init_state, fmt(calls)))
        nontrivial = any(
            a.op[0] == 'getitem' and b.op[0] == 'set' and a.op[1] == b.op[1] and a.client != b.client and overlaps(a, b) and (a.interleaved or b.interleaved)
            for a in calls
            for b in calls
        )
        return {'nontrivial': nontrivial, 'classes': ['processes=%d' % len(case['progs'])]}


SUBCHECKS = [Sequential(), Concurrent(), ProcessConcurrent()]
