"""C06 — transaction blocks are all-or-nothing, isolated, nestable and thread-owned."""

import collections
import copy

from hypothesis import strategies as st

from ..audit import Snapshot
from ..cacheops import DFLT, Runner, value_specs
from ..common import HarnessError, Violation, short
from ..conc import fmt, io_selftest, mark_interleaved, run_scheduled
from ..engine import SubCheck
from ..model import CacheModel, same, strict
from ..sched import Call, linearize, overlaps
from . import c03, c05, c13

LEVEL = 'exploration'
RULE = (
    'sequential: a generated pre-state, then a block tree: ops (set/add/incr/delete/pop/push/pull/touch/get on inline and '
    'file-backed values) with nested blocks, an optional raise point at any depth, optionally a handler that catches an inner '
    'block\'s exception inside the outer one; targets Cache.transact, FanoutCache.transact (2-3 shards), Index.transact and '
    'Deque.transact. Oracle: if the outermost block raises, keys/values read back through the API/expiry/tags/len equal the '
    'pre-state and the rows-versus-files audit is clean; if it completes, the state equals the model after all executed ops; '
    'an inner exception handled inside the outer block leaves the executed ops in place. concurrent: client 0 runs a block '
    '(possibly aborting) while 1-2 other clients (own Cache object, or another thread on the SAME object) read and write under a '
    'generated schedule; oracle = linearizability with the whole block as one atomic call; sharded variant: two clients run FanoutCache.transact() blocks '
    'against a plain writer (own FanoutCache objects, 2/3/8 shards), same oracle, a history explained only when blocks are atomic per shard is the recorded known finding. non-trivial = the block raises '
    'after >= 1 write, or a foreign call overlaps the open block with interleaved statements; distinct by SHA-1 of the case'
)
ASSUMPTIONS = [
    'an injected exception is never swallowed inside a block half-way through one operation (no savepoints exist); '
    'exceptions callers legitimately catch inside blocks (KeyError from incr/del) are raised before any write',
    'concurrent clients are threads; schedules are statement-granular',
]


class Boom(Exception):
    pass


class BoomKey(KeyError):
    pass


class BoomBase(BaseException):
    pass


BOOMS = (Boom, BoomKey, BoomBase)
RAISE = st.tuples(st.just('raise'), st.sampled_from(['exc', 'exc', 'lookup', 'base']))


def boom(node):
    kind = node[1] if len(node) > 1 else 'exc'
    raise {'exc': Boom, 'lookup': BoomKey, 'base': BoomBase}[kind]()


KEYS = ['a', 'b', 'c', 7]


def block_ops(threshold, fanout=False):
    k = st.sampled_from(KEYS)
    v = value_specs(threshold)
    ttl = st.sampled_from([None, None, 300])
    tag = st.sampled_from([None, 't'])
    ops = [
        st.tuples(st.just('set'), k, v, ttl, tag),
        st.tuples(st.just('set'), k, v, ttl, tag),
        st.tuples(st.just('add'), k, v, ttl, tag),
        st.tuples(st.just('incr'), k, st.just(1), st.sampled_from([0, None])),
        st.tuples(st.just('delete'), k),
        st.tuples(st.just('del'), k),
        st.tuples(st.just('pop'), k, st.booleans(), st.just(False)),
        st.tuples(st.just('touch'), k, ttl),
        st.tuples(st.just('get'), k, st.just(DFLT), st.booleans(), st.just(True), st.just(True)),
    ]
    if not fanout:
        ops += [
            st.tuples(st.just('push'), v, st.sampled_from([None, 'q']), st.sampled_from(['back', 'front']), st.none(), st.none()),
            st.tuples(st.just('pull'), st.sampled_from([None, 'q']), st.sampled_from(['back', 'front']), st.just(False), st.just(False)),
            st.tuples(st.just('peekitem'), st.booleans()),
            st.tuples(st.just('clear')),
        ]
    return st.one_of(*ops)


def tree_strategy(threshold, fanout=False):
    op = block_ops(threshold, fanout).map(lambda o: ('op', o))
    leaf = st.one_of(op, op, op, op, RAISE)
    return st.recursive(
        st.lists(leaf, min_size=1, max_size=5),
        lambda inner: st.lists(st.one_of(op, op, RAISE, st.tuples(st.just('block'), inner, st.booleans())), min_size=1, max_size=5),
        max_leaves=12,
    )


def tree_writes_before_raise(nodes):
    """Does the tree raise (unhandled at top) after >= 1 write?  Returns (raises, writes_seen)."""
    writes = 0

    def walk(ns):
        nonlocal writes
        for n in ns:
            if n[0] == 'op':
                if n[1][0] not in ('get', 'peekitem'):
                    writes += 1
            elif n[0] == 'raise':
                return True
            elif n[0] == 'block':
                if walk(n[1]) and not n[2]:
                    return True
        return False

    return walk(nodes), writes


class CacheBlocks(SubCheck):
    name = 'cache_blocks'
    fanout = False

    def examples(self, tier):
        return 80 if tier == 'quick' else 4000

    def strategy(self, tier):
        fan = self.fanout

        @st.composite
        def case(draw):
            threshold = draw(st.sampled_from([8, 8, 32768]))
            cfg = {'disk_min_file_size': threshold, 'statistics': draw(st.booleans()), 'eviction_policy': draw(st.sampled_from(['least-recently-stored', 'least-recently-used', 'none'])), 'cull_limit': 10}
            return {
                'cfg': cfg,
                'shards': draw(st.sampled_from([2, 3])),
                'pre': draw(st.lists(block_ops(threshold, fan), max_size=6)),
                'tree': draw(tree_strategy(threshold, fan)),
                'post': draw(st.lists(block_ops(threshold, fan), max_size=3)),
                # an asynchronous exception (Ctrl-C) delivered just as the ROLLBACK statement of the aborting block returns
                'interrupt_after_rollback': draw(st.integers(0, 4)) == 0,
                # before the judged block an unrelated write on the same object fails: with a plain database error, or with one
                # after which SQLite has rolled the transaction back by itself (database full).  It stores nothing, and the
                # object must be as transactional afterwards as before.
                'prior_fault': draw(st.sampled_from([None, None, None, 'error', 'autorollback'])),
                'tree2': draw(tree_strategy(threshold, fan)),
            }

        return case()

    def failed_write(self, env, cache, mode):
        import sqlite3 as _sq

        from ..conc import get_seams
        from ..seams import Controller

        seams = env.cache['seams'] if 'seams' in env.cache else get_seams(env)

        class FailOnce(Controller):
            fired = False

            def event(self_, kind, label, con=None):
                if kind == 'sql' and not self_.fired and label.lstrip().upper().startswith(('INSERT', 'UPDATE')) and con is not None and con.in_transaction:
                    self_.fired = True
                    if mode == 'autorollback':
                        _sq.Connection.execute(con, 'ROLLBACK')
                        raise _sq.OperationalError('database or disk is full')
                    raise _sq.OperationalError('disk I/O error')

        ctl = FailOnce()
        seams.ctl = ctl
        try:
            cache.set('sacrificed', 'tiny')  # (inline: no value file is involved)
        except _sq.OperationalError:
            pass
        finally:
            seams.ctl = Controller()
        if not ctl.fired:
            raise HarnessError('the failing write was not reached')
        if 'sacrificed' in cache:  # (membership does not touch the hit/miss statistics)
            raise Violation('C06/failed-write-stored', 'a set() whose row write raised (%s) left its item behind' % mode)

    def open(self, path, case):
        import diskcache

        if self.fanout:
            return diskcache.FanoutCache(path, shards=case['shards'], timeout=0, **case['cfg'])
        return diskcache.Cache(path, **case['cfg'])

    def execute(self, case, env):
        clock = c03.get_clock(env)
        path = env.scratch.fresh('txn')
        cache = self.open(path, case)
        cfg = case['cfg']
        try:
            model = CacheModel(statistics=cfg['statistics'], policy=cfg['eviction_policy'])
            if self.fanout:
                r = c13.FanoutRunner(cache, model, clock, cfg, pid='C06', shards=case['shards'])
            else:
                r = Runner(cache, model, clock, cfg, pid='C06')
            r.run(case['pre'])
            if case.get('prior_fault'):
                self.failed_write(env, cache, case['prior_fault'])
            saved = copy.deepcopy(model)
            saved_hits = (model.hits, model.misses)
            aborted = False
            state = {'wrote': 0, 'file_ops': set()}

            def run_nodes(nodes):
                for node in nodes:
                    if node[0] == 'op':
                        r.step(node[1])
                        if node[1][0] not in ('get', 'peekitem'):
                            state['wrote'] += 1
                    elif node[0] == 'raise':
                        boom(node)
                    else:
                        try:
                            with cache.transact(retry=True):
                                run_nodes(node[1])
                        except BOOMS:
                            if not node[2]:
                                raise

            interrupt = bool(case.get('interrupt_after_rollback')) and not self.fanout
            if interrupt:
                from ..conc import get_seams
                from ..seams import Controller
                import sqlite3 as _sq

                seams = get_seams(env)
                seams.clock.adv = clock.adv if hasattr(clock, 'adv') else 0.0

                class InterruptAfterRollback(Controller):
                    fired = False

                    def event(self_, kind, label, con=None):
                        if kind == 'sql' and label.strip().upper().startswith('ROLLBACK') and not self_.fired and con is not None:
                            self_.fired = True
                            _sq.Connection.execute(con, 'ROLLBACK')  # the statement completes ...
                            raise BoomBase()  # ... and the interrupt is delivered as it returns

                ctl = InterruptAfterRollback()
                seams.ctl = ctl
            try:
                try:
                    with cache.transact(retry=True):
                        run_nodes(case['tree'])
                except BOOMS:
                    aborted = True
                except Exception as exc:
                    if not interrupt:
                        raise
                    # the code issued ROLLBACK a second time after our completed one: tolerated, the block is aborted
                    aborted = True
            finally:
                if interrupt:
                    seams.ctl = Controller()
            if aborted:
                r.m = saved
                # statistics are Settings rows of the same database: they roll back with the block
                r.m.hits, r.m.misses = saved_hits
                r.trace.append(('<< outermost block raised: rolled back >>',))
            try:
                r.scan()
                r.step(('stats', cfg['statistics'], False))
            except Violation as v:
                if aborted:
                    raise Violation('C06/abort-not-restored/' + v.signature.split('/', 1)[1], 'after the outermost block raised, the cache differs from its pre-state:\n' + v.detail)
                raise
            dirs = [path] if not self.fanout else [path + '/%03d' % i for i in range(case['shards'])]
            for d in dirs:
                # with the injected interrupt the library's own clean-up after ROLLBACK is cut short (an asynchronous
                # exception inside library code is outside the property); unreferenced files are then tolerated
                probs = Snapshot(d).problems(allow_orphans=interrupt)
                if probs:
                    kind = probs[0][0]
                    raise Violation(
                        'C06/audit-after-%s/%s' % ('abort' if aborted else 'commit', kind),
                        'rows and files disagree after the block %s: %s\ntree=%s' % ('raised' if aborted else 'completed', short(probs, 500), short(case['tree'], 600)),
                    )
            r.run(case['post'])
            r.scan()
            if case.get('tree2') is not None:
                # a later block on the same object and thread is still a real transaction
                saved2 = copy.deepcopy(r.m)
                hits2 = (r.m.hits, r.m.misses)
                aborted2 = False
                try:
                    with cache.transact(retry=True):
                        run_nodes(case['tree2'])
                except BOOMS:
                    aborted2 = True
                if aborted2:
                    r.m = saved2
                    r.m.hits, r.m.misses = hits2
                    r.trace.append(('<< second block raised: rolled back >>',))
                try:
                    r.scan()
                    r.step(('stats', cfg['statistics'], False))
                except Violation as v:
                    if aborted2:
                        raise Violation('C06/abort-not-restored/second-block/' + v.signature.split('/', 1)[1], 'a later block on the same object raised, but its effects stayed:\n' + v.detail)
                    raise
            nontrivial = aborted and state['wrote'] >= 1
            classes = ['aborted' if aborted else 'committed'] + sorted(r.classes) + (['after-failed-write=' + case['prior_fault']] if case.get('prior_fault') else [])
            return {'nontrivial': nontrivial, 'classes': classes}
        finally:
            cache.close()
            env.scratch.drop(path)

    def selftest(self, env):
        c03.Random().selftest(env)


class FanoutBlocks(CacheBlocks):
    name = 'fanout_blocks'
    fanout = True

    def examples(self, tier):
        return 40 if tier == 'quick' else 2000


# ---------------------------------------------------------------------------------------------
# Index.transact / Deque.transact


def vals():
    return st.one_of(st.integers(0, 9), st.tuples(st.just('B'), st.integers(0, 255)))


def mkv(v):
    if type(v) is tuple and v[0] == 'B':
        return bytes([v[1]]) * 40
    return v


def pers_ops(kind):
    if kind == 'index':
        k = st.sampled_from(['a', 'b', 'c'])
        return st.one_of(
            st.tuples(st.just('set'), k, vals()),
            st.tuples(st.just('set'), k, vals()),
            st.tuples(st.just('del'), k),
            st.tuples(st.just('pop'), k),
            st.tuples(st.just('setdefault'), k, vals()),
            st.tuples(st.just('popitem'), st.booleans()),
        )
    return st.one_of(
        st.tuples(st.just('append'), vals()),
        st.tuples(st.just('append'), vals()),
        st.tuples(st.just('appendleft'), vals()),
        st.tuples(st.just('pop')),
        st.tuples(st.just('popleft')),
        st.tuples(st.just('setitem'), st.integers(-3, 3), vals()),
        st.tuples(st.just('delitem'), st.integers(-3, 3)),
        st.tuples(st.just('rotate'), st.integers(-2, 2)),
    )


class PersistentBlocks(SubCheck):
    name = 'index_deque_blocks'

    def examples(self, tier):
        return 80 if tier == 'quick' else 3000

    def strategy(self, tier):
        @st.composite
        def case(draw):
            kind = draw(st.sampled_from(['index', 'deque']))
            op = pers_ops(kind).map(lambda o: ('op', o))
            inner = st.lists(st.one_of(op, op, op, RAISE), min_size=1, max_size=4)
            tree = draw(st.lists(st.one_of(op, op, op, RAISE, st.tuples(st.just('block'), inner, st.booleans())), min_size=1, max_size=6))
            return {'kind': kind, 'maxlen': draw(st.sampled_from([None, 2])), 'pre': draw(st.lists(pers_ops(kind), max_size=5)), 'tree': tree}

        return case()

    def execute(self, case, env):
        import diskcache

        path = env.scratch.fresh('ptx')
        kind = case['kind']
        cache = diskcache.Cache(path, eviction_policy='none', disk_min_file_size=8)
        if kind == 'index':
            obj = diskcache.Index.fromcache(cache)
            model = collections.OrderedDict()
        else:
            obj = diskcache.Deque.fromcache(cache, maxlen=case['maxlen'])
            model = collections.deque(maxlen=case['maxlen'])
        box = {'m': model}

        def outcome(fn):
            try:
                return ('ok', fn())
            except BOOMS:
                raise
            except Exception as exc:
                return ('exc', type(exc).__name__)

        def apply(op):
            m = box['m']
            name = op[0]
            if name in ('set',):
                v = mkv(op[2])
                a, b = outcome(lambda: obj.__setitem__(op[1], v)), outcome(lambda: m.__setitem__(op[1], v))
            elif name == 'del':
                a, b = outcome(lambda: obj.__delitem__(op[1])), outcome(lambda: m.__delitem__(op[1]))
            elif name == 'pop' and kind == 'index':
                a, b = outcome(lambda: obj.pop(op[1])), outcome(lambda: m.pop(op[1]))
            elif name == 'setdefault':
                v = mkv(op[2])
                a, b = outcome(lambda: obj.setdefault(op[1], v)), outcome(lambda: m.setdefault(op[1], v))
            elif name == 'popitem':
                a, b = outcome(lambda: obj.popitem(last=op[1])), outcome(lambda: m.popitem(last=op[1]))
            elif name in ('append', 'appendleft'):
                v = mkv(op[1])
                a, b = outcome(lambda: getattr(obj, name)(v)), outcome(lambda: getattr(m, name)(v))
            elif name in ('pop', 'popleft'):
                a, b = outcome(getattr(obj, name)), outcome(getattr(m, name))
            elif name == 'setitem':
                v = mkv(op[2])
                a, b = outcome(lambda: obj.__setitem__(op[1], v)), outcome(lambda: m.__setitem__(op[1], v))
            elif name == 'delitem':
                a, b = outcome(lambda: obj.__delitem__(op[1])), outcome(lambda: m.__delitem__(op[1]))
            elif name == 'rotate':
                a, b = outcome(lambda: obj.rotate(op[1])), outcome(lambda: m.rotate(op[1]))
            else:
                raise HarnessError('unknown op %r' % (op,))
            if a[0] != b[0] or (a[0] == 'exc' and a[1] != b[1]) or (a[0] == 'ok' and not same(a[1], b[1])):
                raise Violation('C06/%s-in-block/result' % kind, 'op %s inside a transaction: %s gives %s, the model %s' % (short(op), kind, short(a), short(b)))

        def contents():
            try:
                return list(obj.items()) if kind == 'index' else list(obj)
            except Exception as exc:
                raise Violation('C06/unreadable-after-block/%s' % kind, 'reading the %s back raised %r (a key is listed but its value is gone)\ntree=%s' % (kind, exc, short(case['tree'], 500)))

        def model_contents():
            m = box['m']
            return list(m.items()) if kind == 'index' else list(m)

        wrote = [0]
        try:
            for op in case['pre']:
                apply(op)
            saved = copy.deepcopy(box['m'])

            def run_nodes(nodes):
                for node in nodes:
                    if node[0] == 'op':
                        apply(node[1])
                        wrote[0] += 1
                    elif node[0] == 'raise':
                        boom(node)
                    else:
                        try:
                            with obj.transact():
                                run_nodes(node[1])
                        except BOOMS:
                            if not node[2]:
                                raise

            aborted = False
            try:
                with obj.transact():
                    run_nodes(case['tree'])
            except BOOMS:
                aborted = True
                box['m'] = saved
            got, want = contents(), model_contents()
            if strict(got) != strict(want) or len(obj) != len(box['m']):
                raise Violation(
                    'C06/%s/%s' % ('abort-not-restored' if aborted else 'commit-mismatch', kind),
                    '%s.transact() %s: contents %s (len %d), expected %s\ntree=%s' % (kind, 'raised' if aborted else 'completed', short(got, 300), len(obj), short(want, 300), short(case['tree'], 500)),
                )
            probs = Snapshot(path).problems()
            if probs:
                raise Violation('C06/audit-after-%s/%s' % ('abort' if aborted else 'commit', probs[0][0]), '%s: rows and files disagree: %s\ntree=%s' % (kind, short(probs, 400), short(case['tree'], 500)))
            return {'nontrivial': aborted and wrote[0] >= 1, 'classes': ['kind=' + kind, 'aborted' if aborted else 'committed']}
        finally:
            cache.close()
            env.scratch.drop(path)


# ---------------------------------------------------------------------------------------------
# isolation under schedules: the whole block is one atomic call


@st.composite
def conc_case(draw):
    n = draw(st.integers(2, 3))
    block = [draw(c05.op_strategy(0, i)) for i in range(draw(st.integers(1, 4)))]
    # (closing the connection that holds the open transaction is misuse, not a client of the property)
    block = [op for op in block if op[0] not in ('list', 'close', 'open', 'iterstart', 'iterend')] or [('set', 'x', ('s', 'c0.0'))]
    progs = [[('block', tuple(block), draw(st.booleans()))]]
    for c in range(1, n):
        progs.append([draw(c05.op_strategy(c, i)) for i in range(draw(st.integers(1, 3)))])
    if draw(st.booleans()):
        progs[0].append(draw(c05.op_strategy(0, 9)))
    init = {}
    for k in c05.KEYS:
        choice = draw(st.sampled_from(['absent', 'inline', 'file']))
        if choice == 'inline':
            init[k] = ('s', 'init-' + k)
        elif choice == 'file':
            init[k] = ('B', 255 if k == 'x' else 254, 100)
    if draw(st.booleans()):
        init['n'] = ('i', 10)
    schedule = draw(st.lists(st.tuples(st.integers(0, n - 1), st.one_of(st.integers(1, 10), st.sampled_from([14, 20, 30, 50]))), max_size=14))
    return {'mode': draw(st.sampled_from(['own', 'shared', 'shared'])), 'init': init, 'progs': progs, 'schedule': schedule}


def do_op(cache, op):
    if op[0] != 'block':
        return c05.do_op(cache, op)
    results = []
    try:
        with cache.transact(retry=True):
            for inner in op[1]:
                results.append(c05.do_op(cache, inner))
            if op[2]:
                raise Boom()
        return ('ok', ('committed', tuple(results)))
    except Boom:
        return ('ok', ('aborted', tuple(results)))
    except Exception as exc:
        return ('exc', type(exc).__name__)


def model_apply(state, call):
    if call.op[0] != 'block':
        return c05.model_apply(state, call)
    if call.result[0] != 'ok':
        return state, False
    verdict, results = call.result[1]
    cur = state
    ok = len(results) == len(call.op[1])
    for inner, res in zip(call.op[1], results):
        pseudo = Call(0, call.client, inner, call.inv)
        pseudo.res = call.res
        pseudo.result = res
        cur, good = c05.model_apply(cur, pseudo)
        ok = ok and good
    if verdict == 'aborted':
        return state, ok and call.op[2]
    return cur, ok and not call.op[2]


class ConcurrentBlocks(SubCheck):
    name = 'concurrent_blocks'

    def examples(self, tier):
        return 150 if tier == 'quick' else 8000

    def strategy(self, tier):
        return conc_case()

    def execute(self, case, env):
        import diskcache

        n = len(case['progs'])

        def open_clients(path):
            base = diskcache.Cache(path, timeout=0, disk_min_file_size=64)
            for k, spec in case['init'].items():
                base.set(k, c05.mk(spec))
            if case['mode'] == 'shared':
                return [base] * n, [base]
            caches = [base] + [diskcache.Cache(path, timeout=0) for _ in range(n - 1)]
            return caches, caches

        calls, sched = run_scheduled(env, case['progs'], case['schedule'], open_clients, do_op, 'C06', warm=lambda c: c._sql, final_ops=c05.FINAL_OPS[:7])
        if sched.limit_hit:
            return {'nontrivial': False, 'classes': ['step-limit']}
        mark_interleaved(calls, sched.trace)
        init_state = c05.init_state_of(case['init'])
        scans = [c for c in calls if c.op[0] == 'list']
        lin = [c for c in calls if c.op[0] != 'list']
        for c in lin:
            if c.result[0] == 'exc' and c.result[1] not in ('KeyError',) and c.op[0] != 'setbad' and not (c.result[1] == 'Timeout' and c.op[-1] == 'nr'):
                raise Violation('C06/concurrent/unexpected-exception/%s' % c.result[1], 'call %r\n%s' % (c, fmt(calls)))
        block = [c for c in lin if c.op[0] == 'block'][0]

        def skippable(c):
            if c.op[0] in ('get', 'getitem', 'getexp') and c05.is_miss(c):
                k = c05.op_key(c.op)
                for o in lin:
                    if o is c or o.client == c.client or not overlaps(o, c):
                        continue
                    inner = o.op[1] if o.op[0] == 'block' else [o.op]
                    if any(i[0] in c05.WRITES and c05.op_key(i) == k for i in inner):
                        return True
            return False

        if linearize(lin, init_state, model_apply, lambda s: s, skippable) is None:
            raise Violation(
                'C06/concurrent/not-atomic/%s' % ('shared-object' if case['mode'] == 'shared' else 'own-object'),
                'no order with the block as ONE atomic call explains these results (mode %s, initial %r):\n%s' % (case['mode'], init_state, fmt(calls)),
            )
        foreign = [c for c in lin if c.client != block.client and overlaps(c, block) and (c.interleaved or block.interleaved)]
        return {'nontrivial': bool(foreign), 'classes': ['mode=' + case['mode'], 'aborting' if block.op[2] else 'committing']}

    def selftest(self, env):
        io_selftest(env)


class FanoutConcurrentBlocks(ConcurrentBlocks):
    """Two clients run FanoutCache.transact() blocks while a third writes plainly, each with its own FanoutCache object on
    one directory.  Every shard is locked for a block, so blocks must be atomic against everything and must not deadlock."""

    name = 'fanout_concurrent_blocks'

    def examples(self, tier):
        return 60 if tier == 'quick' else 3000

    def strategy(self, tier):
        @st.composite
        def case(draw):
            base = draw(conc_case())
            # a second block client
            block2 = [draw(c05.op_strategy(1, i)) for i in range(draw(st.integers(1, 3)))]
            block2 = [op for op in block2 if op[0] not in ('list', 'close', 'open', 'iterstart', 'iterend')] or [('set', 'y', ('s', 'c1.0'))]
            progs = list(base['progs'])
            progs[1] = [('block', tuple(block2), draw(st.booleans()))]
            if len(progs) < 3:
                progs.append([draw(c05.op_strategy(2, 0))])
            progs = [[op for op in prog if op[0] != 'close'] or [('len',)] for prog in progs]
            return dict(base, progs=progs, mode='own', shards=draw(st.sampled_from([2, 3, 8])))

        return case()

    def execute(self, case, env):
        import diskcache

        n = len(case['progs'])
        shard_of = {}

        def open_clients(path):
            fcs = [diskcache.FanoutCache(path, shards=case['shards'], timeout=0, disk_min_file_size=64) for _ in range(n)]
            for k, spec in case['init'].items():
                fcs[0].set(k, c05.mk(spec))
            for k in c05.KEYS + ['n']:
                shard_of[k] = fcs[0]._hash(k) % case['shards']
            return fcs, fcs

        def warm(fc):
            for shard in fc._shards:
                shard._sql

        calls, sched = run_scheduled(env, case['progs'], case['schedule'], open_clients, do_op, 'C06', warm=warm, final_ops=c05.FINAL_OPS[:7], max_steps=20000)
        if sched.limit_hit:
            return {'nontrivial': False, 'classes': ['step-limit']}
        mark_interleaved(calls, sched.trace)
        init_state = c05.init_state_of(case['init'])
        lin = [c for c in calls if c.op[0] != 'list']
        for c in lin:
            if c.result[0] == 'exc' and c.result[1] not in ('KeyError',) and c.op[0] != 'setbad' and not (c.result[1] == 'Timeout' and c.op[-1] == 'nr'):
                raise Violation('C06/concurrent/unexpected-exception/%s' % c.result[1], 'call %r\n%s' % (c, fmt(calls)))
        # len(FanoutCache) adds up the shards one after the other: under contention it is an aggregate that is not one atomic
        # read even without any block (that is C13's subject), so an overlapped len() of a plain client is not judged here
        lin = [c for c in lin if not (c.op[0] == 'len' and c.client != -1 and any(o.client != c.client and overlaps(o, c) for o in lin))]

        def skippable_in(history):
            def skippable(c):
                if c.op[0] in ('get', 'getitem', 'getexp') and c05.is_miss(c):
                    k = c05.op_key(c.op)
                    for o in history:
                        if o is c or o.client == c.client or not overlaps(o, c):
                            continue
                        inner = o.op[1] if o.op[0] == 'block' else [o.op]
                        if any(i[0] in c05.WRITES and c05.op_key(i) == k for i in inner):
                            return True
                return False

            return skippable

        classes = ['shards=%d' % case['shards']]
        if linearize(lin, init_state, model_apply, lambda s: s, skippable_in(lin)) is None:
            # Is it the shard-by-shard commit?  Weaker reference: every block is atomic PER SHARD (its operations on the keys of
            # one shard are one atomic call), the shards' parts taking effect at independent instants inside the block's interval.
            split = []
            nid = max(c.cid for c in lin) + 1
            for c in lin:
                if c.op[0] != 'block' or c.result[0] != 'ok':
                    split.append(c)
                    continue
                verdict, results = c.result[1]
                groups = {}
                for inner, res in zip(c.op[1], results):
                    k = c05.op_key(inner)
                    if k is not None:
                        groups.setdefault(shard_of.get(k, k), []).append((inner, res))
                for _, items in sorted(groups.items(), key=lambda kv: str(kv[0])):
                    part = Call(nid, c.client, ('block', tuple(i for i, _ in items), c.op[2]), c.inv)
                    nid += 1
                    part.res = c.res
                    part.result = ('ok', (verdict, tuple(r for _, r in items)))
                    split.append(part)
            detail = 'no order with each FanoutCache.transact() block as ONE atomic call explains these results (initial %r):\n%s' % (init_state, fmt(calls))
            if len(split) > len(lin) and linearize(split, init_state, model_apply, lambda s: s, skippable_in(split)) is not None:
                raise Violation(
                    'C06/fanout/commit-visible-shard-by-shard',
                    detail + '\n(the history IS explained when every block is atomic per shard only: the shards commit one after the other and a reader saw some shards committed, others not)',
                )
            raise Violation('C06/concurrent/not-atomic/fanout', detail)
        blocks = [c for c in lin if c.op[0] == 'block']
        both = len(blocks) >= 2 and overlaps(blocks[0], blocks[1])
        return {'nontrivial': both, 'classes': classes + (['blocks-overlap'] if both else [])}


class ProcessBlocks(ConcurrentBlocks):
    """The block runs in one OS process, the other clients in their own processes."""

    name = 'concurrent_blocks_processes'

    def examples(self, tier):
        return 30 if tier == 'quick' else 1500

    def execute(self, case, env):
        import diskcache

        from ..procsched import run_scheduled_procs

        def setup(path):
            base = diskcache.Cache(path, timeout=0, disk_min_file_size=64)
            for k, spec in case['init'].items():
                base.set(k, c05.mk(spec))
            return base

        def make_client(path, shared, i):
            if case['mode'] == 'shared' and i >= 0:
                shared._sql
                return shared  # the inherited object, used from the forked child
            c = diskcache.Cache(path, timeout=0)
            c._sql
            return c

        progs = case['progs']
        calls, run = run_scheduled_procs(env, progs, case['schedule'], setup, make_client, do_op, 'C06', final_ops=c05.FINAL_OPS[:7])
        if run.limit_hit:
            return {'nontrivial': False, 'classes': ['step-limit']}
        mark_interleaved(calls, run.trace)
        init_state = c05.init_state_of(case['init'])
        lin = [c for c in calls if c.op[0] != 'list']
        for c in lin:
            if c.result[0] == 'exc' and c.result[1] not in ('KeyError',) and c.op[0] != 'setbad' and not (c.result[1] == 'Timeout' and c.op[-1] == 'nr'):
                raise Violation('C06/concurrent/unexpected-exception/%s' % c.result[1], 'call %r\n%s' % (c, fmt(calls)))
        block = [c for c in lin if c.op[0] == 'block'][0]

        def skippable(c):
            if c.op[0] in ('get', 'getitem', 'getexp') and c05.is_miss(c):
                k = c05.op_key(c.op)
                for o in lin:
                    if o is c or o.client == c.client or not overlaps(o, c):
                        continue
                    inner = o.op[1] if o.op[0] == 'block' else [o.op]
                    if any(i[0] in c05.WRITES and c05.op_key(i) == k for i in inner):
                        return True
            return False

        if linearize(lin, init_state, model_apply, lambda s: s, skippable) is None:
            raise Violation('C06/concurrent/not-atomic/processes', 'no order with the block as ONE atomic call explains these results (initial %r):\n%s' % (init_state, fmt(calls)))
        foreign = [c for c in lin if c.client not in (block.client, -1) and overlaps(c, block) and (c.interleaved or block.interleaved)]
        return {'nontrivial': bool(foreign), 'classes': ['processes', 'aborting' if block.op[2] else 'committing']}


SUBCHECKS = [CacheBlocks(), FanoutBlocks(), PersistentBlocks(), ConcurrentBlocks(), FanoutConcurrentBlocks(), ProcessBlocks()]
