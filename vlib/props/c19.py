"""C19 — DjangoCache honours the Django cache-backend contract."""

import warnings

from hypothesis import strategies as st

from ..common import HarnessError, Violation, short
from ..engine import SubCheck
from ..model import same
from . import c03

LEVEL = 'exploration'
RULE = (
    'call sequences over add/get/set/touch/delete/incr/decr/has_key/in/get_many/set_many/delete_many/get_or_set (value and '
    'callable)/incr_version/decr_version/pop/clear/close on keys {a, b, "k 1"} x versions {None,1,2,3} x timeouts {DEFAULT, '
    'None, 0, -1, 0.125, 5, 300} x clock steps, backend parameters TIMEOUT in {300,None,0,5} x KEY_PREFIX in {"",p} x VERSION '
    'in {1,2} x SHARDS in {1,3}; three-way comparison: a written model of the contract, Django\'s reference LocMemCache on the '
    'same virtual clock, and DjangoCache. Model != LocMemCache is a harness error; DjangoCache != model is the violation. '
    'Concurrent part: 2-3 clients (own or one shared DjangoCache object, 1-2 shards) run set/add/get/incr/decr/delete/has_key/touch under '
    'generated schedules, refused calls (ValueError, False) among them; oracle = linearizability against a dictionary, no database error '
    'may surface. non-trivial = >= 2 versions or >= 2 timeout classes used on one key with a clock step between; distinct by SHA-1'
)
ASSUMPTIONS = [
    'where the contract is silent and Django\'s own backends disagree the model says "either": the return value of set() and '
    'clear(), and the boolean of delete()/delete_many() for an expired but physically present key',
    'exact ties now == deadline cannot occur (virtual clock construction)',
]

DEFAULT = 'DEFAULT'
KEYS = ['a', 'b', 'k 1']
VERSIONS = [None, 1, 2, 3]
TIMEOUTS = [DEFAULT, DEFAULT, None, 0, -1, 0.125, 5, 300]
VALUES = [0, 1, 7, 'v', 'w', [1, 2], None]


def op_strategy():
    k = st.sampled_from(KEYS)
    ver = st.sampled_from(VERSIONS)
    to = st.sampled_from(TIMEOUTS)
    v = st.sampled_from(VALUES)
    ks = st.lists(k, min_size=1, max_size=3, unique=True)
    return st.one_of(
        st.tuples(st.just('set'), k, v, to, ver),
        st.tuples(st.just('set'), k, v, to, ver),
        st.tuples(st.just('add'), k, v, to, ver),
        st.tuples(st.just('get'), k, ver),
        st.tuples(st.just('get'), k, ver),
        st.tuples(st.just('touch'), k, to, ver),
        st.tuples(st.just('delete'), k, ver),
        st.tuples(st.just('incr'), k, st.sampled_from([1, 3]), ver),
        st.tuples(st.just('decr'), k, st.sampled_from([1, 2]), ver),
        st.tuples(st.just('has_key'), k, ver),
        st.tuples(st.just('in'), k),
        st.tuples(st.just('get_many'), ks, ver),
        st.tuples(st.just('set_many'), ks, v, to, ver),
        st.tuples(st.just('delete_many'), ks, ver),
        st.tuples(st.just('get_or_set'), k, st.sampled_from([5, 'dflt']), st.booleans(), to, ver),
        st.tuples(st.just('incr_version'), k, ver),
        st.tuples(st.just('decr_version'), k, ver),
        st.tuples(st.just('pop'), k, ver),
        st.tuples(st.just('clear')),
        st.tuples(st.just('close')),
        st.tuples(st.just('advance'), st.sampled_from([0.125, 1, 5, 10, 400])),
        st.tuples(st.just('advance'), st.sampled_from([0.125, 1, 5, 10, 400])),
    )


EITHER = object()


class ContractModel:
    """Ten-line reading of the Django cache contract (docs: topics/cache, BaseCache)."""

    def __init__(self, params, clock):
        self.d = {}
        self.clock = clock
        t = params.get('TIMEOUT', 300)
        self.default_timeout = None if t is None else int(t)
        self.prefix = params.get('KEY_PREFIX', '')
        self.version = params.get('VERSION', 1)

    def k(self, key, version):
        return (self.prefix, self.version if version is None else version, key)

    def deadline(self, timeout):
        if timeout == DEFAULT:
            timeout = self.default_timeout
        elif timeout == 0:
            timeout = -1
        return None if timeout is None else self.clock.adv + timeout

    def live(self, k):
        if k not in self.d:
            return False
        dl = self.d[k][1]
        return dl is None or dl > self.clock.adv

    def present_expired(self, k):
        return k in self.d and not self.live(k)

    def add(self, key, value, timeout, version):
        k = self.k(key, version)
        if self.live(k):
            return False
        self.d[k] = (value, self.deadline(timeout))
        return True

    def get(self, key, default, version):
        k = self.k(key, version)
        return self.d[k][0] if self.live(k) else default

    def set(self, key, value, timeout, version):
        self.d[self.k(key, version)] = (value, self.deadline(timeout))
        return EITHER

    def touch(self, key, timeout, version):
        k = self.k(key, version)
        if not self.live(k):
            return False
        self.d[k] = (self.d[k][0], self.deadline(timeout))
        return True

    def delete(self, key, version):
        k = self.k(key, version)
        if self.live(k):
            del self.d[k]
            return True
        if k in self.d:
            # expired but still physically present: Django's own backends disagree on the boolean
            del self.d[k]
            return EITHER
        return False

    def incr(self, key, delta, version):
        k = self.k(key, version)
        if not self.live(k):
            raise ValueError(key)
        v, dl = self.d[k]
        self.d[k] = (v + delta, dl)
        return v + delta

    def has_key(self, key, version):
        return self.live(self.k(key, version))

    def pop(self, key, default, version):
        k = self.k(key, version)
        if self.live(k):
            return self.d.pop(k)[0]
        return default

    def incr_version(self, key, delta, version):
        ver = self.version if version is None else version
        k = self.k(key, ver)
        if not self.live(k):
            raise ValueError(key)
        value = self.d[k][0]
        self.set(key, value, DEFAULT, ver + delta)
        self.delete(key, ver)
        return ver + delta

    def clear(self):
        self.d.clear()


class Histories(SubCheck):
    name = 'contract_histories'

    def examples(self, tier):
        return 600 if tier == "quick" else 8000

    def strategy(self, tier):
        steps = 40 if tier == 'quick' else 120
        return st.fixed_dictionaries(
            {
                'params': st.fixed_dictionaries(
                    {
                        'TIMEOUT': st.sampled_from([300, None, 0, 5]),
                        'KEY_PREFIX': st.sampled_from(['', 'p']),
                        'VERSION': st.sampled_from([1, 2]),
                        'SHARDS': st.sampled_from([1, 3]),
                    }
                ),
                'ops': st.lists(op_strategy(), min_size=1, max_size=steps),
                # frozen: every call reads the same instant (a coarse real clock); no clock steps, no TIMEOUT=0 default
                'frozen': st.sampled_from([False, False, False, True]),
            }
        )

    def execute(self, case, env):
        from django.core.cache.backends import locmem
        from django.core.cache.backends.base import DEFAULT_TIMEOUT

        from diskcache.djangocache import DjangoCache

        clock = c03.get_clock(env)
        from django.core.cache.backends import base as dj_base

        for mod in (locmem, dj_base):
            if getattr(mod, 'time', None) is not clock:
                if not hasattr(mod, 'time'):
                    raise HarnessError('seam lost: %s has no attribute time' % mod.__name__)
                mod.time = clock
        path = env.scratch.fresh('dj')
        params = dict(case['params'])
        dj = DjangoCache(path, dict(params, DATABASE_TIMEOUT=0))
        env.cache['locmem_n'] = env.cache.get('locmem_n', 0) + 1
        lm = locmem.LocMemCache('verif-%d-%d' % (env.worker, env.cache['locmem_n']), dict(params))
        model = ContractModel(params, clock)
        frozen = bool(case.get('frozen')) and params['TIMEOUT'] != 0
        ops = case['ops']
        if frozen:
            ops = [o for o in ops if o[0] != 'advance' and 0.125 not in o]
            clock.time()
            clock.frozen = True
        trace = []
        usage = {}

        def to(t):
            return DEFAULT_TIMEOUT if t == DEFAULT else t

        def tk(t, **kw):
            # the default timeout is requested by OMITTING the argument (the declared default is part of the contract)
            if t != DEFAULT:
                kw['timeout'] = t
            return {k: v for k, v in kw.items()}

        def outcome(fn):
            try:
                return ('ok', fn())
            except ValueError:
                return ('exc', 'ValueError')
            except Exception as exc:
                return ('exc', type(exc).__name__)

        def judge(op, rd, rl, rm, compare_value=True):
            # model vs LocMem: protects against misreading the contract
            for name, other in (('LocMemCache', rl),):
                if rm[0] == 'ok' and rm[1] is EITHER:
                    continue
                if other is not None and (other[0] != rm[0] or (other[0] == 'exc' and other[1] != rm[1]) or (compare_value and other[0] == 'ok' and not same(other[1], rm[1]))):
                    raise HarnessError('contract model and %s disagree on %r: model %r, %s %r\ntrace %r' % (name, op, rm, name, other, trace[-8:]))
            if rm[0] == 'ok' and rm[1] is EITHER:
                if rd[0] != 'ok':
                    bad = True
                else:
                    return
            bad = rd[0] != rm[0] or (rd[0] == 'exc' and rd[1] != rm[1]) or (compare_value and rd[0] == 'ok' and not same(rd[1], rm[1]))
            if bad:
                raise Violation(
                    'C19/%s' % op[0],
                    'DjangoCache.%s returned %s, the contract (model and LocMemCache) says %s\nparams=%r\nhistory tail:\n  %s'
                    % (short(op), short(rd), short(rm), params, '\n  '.join(short(o, 140) for o in trace[-10:])),
                )

        try:
            with warnings.catch_warnings():
                warnings.simplefilter('ignore')
                for op in ops:
                    trace.append(op)
                    name = op[0]
                    if name == 'advance':
                        clock.advance(op[1])
                        continue
                    if name in ('set', 'add', 'touch', 'set_many', 'get_or_set'):
                        key0 = op[1] if name != 'set_many' else op[1][0]
                        tclass = op[3] if name in ('set', 'add', 'set_many') else (op[2] if name == 'touch' else op[4])
                        u = usage.setdefault(key0, [set(), set()])
                        u[0].add(repr(tclass))
                        u[1].add(op[-1])
                    if name == 'set':
                        _, k, v, t, ver = op
                        judge(op, outcome(lambda: dj.set(k, v, **tk(t, version=ver))), None, outcome(lambda: model.set(k, v, t, ver)))
                        lm.set(k, v, **tk(t, version=ver))
                    elif name == 'add':
                        _, k, v, t, ver = op
                        judge(op, outcome(lambda: dj.add(k, v, **tk(t, version=ver))), outcome(lambda: lm.add(k, v, **tk(t, version=ver))), outcome(lambda: model.add(k, v, t, ver)))
                    elif name == 'get':
                        _, k, ver = op
                        judge(op, outcome(lambda: dj.get(k, 'MISS', ver)), outcome(lambda: lm.get(k, 'MISS', ver)), outcome(lambda: model.get(k, 'MISS', ver)))
                    elif name == 'touch':
                        _, k, t, ver = op
                        judge(op, outcome(lambda: dj.touch(k, **tk(t, version=ver))), outcome(lambda: lm.touch(k, **tk(t, version=ver))), outcome(lambda: model.touch(k, t, ver)))
                    elif name == 'delete':
                        _, k, ver = op
                        rm = outcome(lambda: model.delete(k, ver))
                        judge(op, outcome(lambda: dj.delete(k, ver)), None if rm[1] is EITHER else outcome(lambda: lm.delete(k, ver)), rm)
                        if rm[1] is EITHER:
                            lm.delete(k, ver)
                    elif name in ('incr', 'decr'):
                        _, k, d, ver = op
                        cur = model.get(k, None, ver)
                        if cur is not None and type(cur) is not int:
                            trace.pop()
                            continue
                        sign = 1 if name == 'incr' else -1
                        judge(op, outcome(lambda: getattr(dj, name)(k, d, ver)), outcome(lambda: getattr(lm, name)(k, d, ver)), outcome(lambda: model.incr(k, sign * d, ver)))
                    elif name == 'has_key':
                        _, k, ver = op
                        judge(op, outcome(lambda: dj.has_key(k, ver)), outcome(lambda: lm.has_key(k, ver)), outcome(lambda: model.has_key(k, ver)))
                    elif name == 'in':
                        judge(op, outcome(lambda: op[1] in dj), outcome(lambda: op[1] in lm), outcome(lambda: model.has_key(op[1], None)))
                    elif name == 'get_many':
                        _, ks, ver = op
                        judge(op, outcome(lambda: dj.get_many(ks, ver)), outcome(lambda: lm.get_many(ks, ver)), outcome(lambda: {k: model.get(k, None, ver) for k in ks if model.has_key(k, ver)}))
                    elif name == 'set_many':
                        _, ks, v, t, ver = op
                        data = {k: v for k in ks}
                        rm = ('ok', [])
                        for k in ks:
                            model.set(k, v, t, ver)
                        judge(op, outcome(lambda: dj.set_many(data, **tk(t, version=ver))), outcome(lambda: lm.set_many(data, **tk(t, version=ver))), rm)
                    elif name == 'delete_many':
                        _, ks, ver = op
                        for k in ks:
                            model.delete(k, ver)
                        judge(op, outcome(lambda: dj.delete_many(ks, ver)), outcome(lambda: lm.delete_many(ks, ver)), ('ok', None))
                    elif name == 'get_or_set':
                        _, k, dflt, as_callable, t, ver = op
                        arg = (lambda: dflt) if as_callable else dflt

                        def m_get_or_set():
                            if model.has_key(k, ver):
                                return model.get(k, None, ver)
                            model.add(k, dflt, t, ver)
                            return model.get(k, dflt, ver)

                        judge(op, outcome(lambda: dj.get_or_set(k, arg, **tk(t, version=ver))), outcome(lambda: lm.get_or_set(k, arg, **tk(t, version=ver))), outcome(m_get_or_set))
                    elif name in ('incr_version', 'decr_version'):
                        _, k, ver = op
                        d = 1 if name == 'incr_version' else -1
                        judge(op, outcome(lambda: getattr(dj, name)(k, version=ver)), outcome(lambda: getattr(lm, name)(k, version=ver)), outcome(lambda: model.incr_version(k, d, ver)))
                    elif name == 'pop':
                        _, k, ver = op
                        rm = outcome(lambda: model.pop(k, 'MISS', ver))
                        judge(op, outcome(lambda: dj.pop(k, 'MISS', ver)), None, rm)
                        lm.delete(k, ver)
                    elif name == 'clear':
                        model.clear()
                        lm.clear()
                        r = outcome(dj.clear)
                        if r[0] != 'ok':
                            raise Violation('C19/clear', 'clear() raised %s' % r[1])
                    elif name == 'close':
                        dj.close()
                        lm.close()
                # final sweep over the whole namespace
                for k in KEYS:
                    for ver in (1, 2, 3, 4):
                        op = ('get', k, ver)
                        trace.append(op)
                        judge(op, outcome(lambda: dj.get(k, 'MISS', ver)), outcome(lambda: lm.get(k, 'MISS', ver)), outcome(lambda: model.get(k, 'MISS', ver)))
            advanced = any(o[0] == 'advance' for o in case['ops'])
            nontrivial = advanced and any(len(u[0]) >= 2 or len(u[1]) >= 2 for u in usage.values())
            nontrivial = nontrivial or (frozen and any(0 in o[3:4] or -1 in o[3:4] for o in ops if o[0] in ('set', 'add')))
            return {'nontrivial': nontrivial, 'classes': ['TIMEOUT=%r' % params['TIMEOUT'], 'SHARDS=%d' % params['SHARDS']] + (['frozen-clock'] if frozen else [])}
        finally:
            clock.frozen = False
            dj.close()
            lm.clear()
            locmem._caches.pop(lm._cache is None and '' or 'verif-%d-%d' % (env.worker, env.cache['locmem_n']), None)
            locmem._expire_info.pop('verif-%d-%d' % (env.worker, env.cache['locmem_n']), None)
            locmem._locks.pop('verif-%d-%d' % (env.worker, env.cache['locmem_n']), None)
            env.scratch.drop(path)

    def selftest(self, env):
        c03.Random().selftest(env)


class ConcurrentContract(SubCheck):
    """The same contract under 2-3 clients (own DjangoCache objects on one directory, or one object shared by the threads)
    under generated statement-level schedules: every call returns what some one-at-a-time order of the calls returns
    (linearizability against a dictionary), including the calls that answer with ValueError (incr/decr of a missing key) or
    False (delete of a missing key, add of a present one) - those end their transaction with a rollback - and no call
    surfaces a database error: with the default retry=True a busy shard is waited for."""

    name = 'concurrent_contract'

    def examples(self, tier):
        return 60 if tier == 'quick' else 3000

    def strategy(self, tier):
        def op(client, idx):
            k = st.sampled_from(['x', 'n'])
            v = st.sampled_from([100 * client + idx, ('B', 16 * client + idx + 1)])
            return st.one_of(
                st.tuples(st.just('set'), k, v),
                st.tuples(st.just('add'), k, v),
                st.tuples(st.just('get'), k),
                st.tuples(st.just('incr'), st.just('n'), st.sampled_from([1, 2])),
                st.tuples(st.just('incr'), st.just('n'), st.sampled_from([1, 2])),
                st.tuples(st.just('decr'), st.just('n'), st.just(1)),
                st.tuples(st.just('incr'), st.just('nope'), st.just(1)),  # never present: ValueError
                st.tuples(st.just('delete'), st.sampled_from(['x', 'n', 'nope'])),
                st.tuples(st.just('has_key'), k),
                st.tuples(st.just('touch'), k),
            )

        @st.composite
        def case(draw):
            n = draw(st.integers(2, 3))
            progs = [[draw(op(c, i)) for i in range(draw(st.integers(1, 4)))] for c in range(n)]
            init = {}
            if draw(st.booleans()):
                init['n'] = 10
            if draw(st.booleans()):
                init['x'] = draw(st.sampled_from([7, ('B', 250)]))
            schedule = draw(st.lists(st.tuples(st.integers(0, n - 1), st.one_of(st.integers(1, 8), st.sampled_from([12, 16, 24]))), max_size=14))
            return {'progs': progs, 'init': init, 'schedule': schedule, 'shards': draw(st.sampled_from([1, 2])), 'mode': draw(st.sampled_from(['own', 'own', 'shared']))}

        return case()

    def execute(self, case, env):
        from diskcache.djangocache import DjangoCache

        from ..conc import fmt, mark_interleaved, run_scheduled
        from ..sched import linearize, overlaps

        n = len(case['progs'])
        mk = lambda v: bytes([v[1]]) * 40000 if type(v) is tuple else v  # ('B', fill): a value stored in a file

        def unmk(v):
            if type(v) is bytes:
                return ('B', v[0]) if v and v == bytes([v[0]]) * 40000 else ('MIXED', len(v))
            return v

        def open_clients(path):
            params = {'SHARDS': case['shards'], 'DATABASE_TIMEOUT': 0}
            objs = [DjangoCache(path, params) for _ in range(1 if case['mode'] == 'shared' else n)]
            for k, v in case['init'].items():
                objs[0].set(k, mk(v), None)
            return (objs * n if case['mode'] == 'shared' else objs), objs

        def warm(dj):
            for shard in dj._cache._shards:
                shard._sql

        def do_op(dj, op):
            name = op[0]
            try:
                if name == 'set':
                    return ('ok', dj.set(op[1], mk(op[2]), None))
                if name == 'add':
                    return ('ok', dj.add(op[1], mk(op[2]), None))
                if name == 'get':
                    return ('ok', unmk(dj.get(op[1], 'MISS')))
                if name == 'incr':
                    return ('ok', dj.incr(op[1], op[2]))
                if name == 'decr':
                    return ('ok', dj.decr(op[1], op[2]))
                if name == 'delete':
                    return ('ok', dj.delete(op[1]))
                if name == 'has_key':
                    return ('ok', dj.has_key(op[1]))
                if name == 'touch':
                    return ('ok', dj.touch(op[1], None))
                if name == 'len':
                    return ('ok', len(dj._cache))
            except Exception as exc:
                return ('exc', type(exc).__name__)
            raise HarnessError('unknown op %r' % (op,))

        def apply(state, call):
            d = dict(state)
            op, res = call.op, call.result
            name, k = op[0], (op[1] if len(op) > 1 else None)
            if name == 'set':
                d[k] = op[2]
                exp = ('ok', True)
            elif name == 'add':
                exp = ('ok', k not in d)
                d.setdefault(k, op[2])
            elif name == 'get':
                exp = ('ok', d.get(k, 'MISS'))
            elif name in ('incr', 'decr'):
                if k not in d:
                    exp = ('exc', 'ValueError')
                elif type(d[k]) is not int:
                    return state, res[0] == 'exc'  # a value that is no number: some error, nothing changes
                else:
                    d[k] = d[k] + (op[2] if name == 'incr' else -op[2])
                    exp = ('ok', d[k])
            elif name == 'delete':
                exp = ('ok', k in d)
                d.pop(k, None)
            elif name in ('has_key', 'touch'):
                exp = ('ok', k in d)
            elif name == 'len':
                exp = ('ok', len(d))
            else:
                raise HarnessError('model: unknown op %r' % (op,))
            return tuple(sorted(d.items(), key=repr)), exp == res

        finals = [('get', 'x'), ('get', 'n'), ('get', 'nope'), ('len',)]
        calls, sched = run_scheduled(env, case['progs'], case['schedule'], open_clients, do_op, 'C19', warm=warm, final_ops=finals, max_steps=20000)
        if sched.limit_hit:
            return {'nontrivial': False, 'classes': ['step-limit']}
        mark_interleaved(calls, sched.trace)
        for c in calls:
            if c.result[0] == 'exc' and c.result[1] not in ('ValueError', 'TypeError'):
                raise Violation('C19/concurrent/unexpected-exception/%s' % c.result[1], 'call %r raised %s (retry is on by default: a busy shard is waited for)\n%s' % (c, c.result[1], fmt(calls)))
            if c.result[0] == 'ok' and type(c.result[1]) is tuple and c.result[1][0] == 'MIXED':
                raise Violation('C19/concurrent/torn-value', 'call %r\n%s' % (c, fmt(calls)))
        init_state = tuple(sorted(case['init'].items(), key=repr))

        def skippable(c):
            # (the miss a lookup may report while the same key is being written: tolerated by C05 for the underlying cache)
            return c.op[0] in ('get', 'has_key') and c.result in (('ok', 'MISS'), ('ok', False)) and any(
                o is not c and o.client != c.client and o.op[0] in ('set', 'add', 'incr', 'decr', 'delete', 'touch') and o.op[1] == c.op[1] and overlaps(o, c) for o in calls
            )

        if linearize(calls, init_state, apply, lambda s: s, skippable) is None:
            raise Violation('C19/concurrent/not-linearizable', 'no one-at-a-time order of these calls explains their results (initial %r, mode %s, %d shard(s)):\n%s' % (init_state, case['mode'], case['shards'], fmt(calls)))
        rolled_back = any(c.result == ('exc', 'ValueError') or (c.op[0] == 'delete' and c.result == ('ok', False)) for c in calls if c.client >= 0)
        inter = any(c.interleaved for c in calls)
        return {'nontrivial': rolled_back and inter, 'classes': ['mode=' + case['mode'], 'shards=%d' % case['shards']] + (['after-refused-call'] if rolled_back else [])}

    def selftest(self, env):
        from ..conc import io_selftest

        io_selftest(env)


SUBCHECKS = [Histories(), ConcurrentContract()]
