"""C11 — Deque is a persistent collections.deque."""

import collections
import pickle

from hypothesis import strategies as st

from ..common import HarnessError, Violation, short
from ..conc import fmt, io_selftest, mark_interleaved, run_scheduled
from ..engine import SubCheck
from ..model import same, strict
from ..sched import linearize, overlaps

LEVEL = 'exploration'
RULE = (
    'sequential: generated sequences over append/appendleft/extend/extendleft/+=/pop/popleft/peek/peekleft/[i]/[i]=v/'
    'del [i] (i over the negative, positive and out-of-range span)/rotate (incl. |n| > len, 0, non-int)/reverse/remove/'
    'count/in/len/comparisons against lists, tuples and deques/iter/reversed/clear/maxlen=m, with maxlen in '
    '{None,0,1,3}, small and file-backed values with frequent duplicates, reopen/pickle/copy events, and origins '
    'Deque(...), FanoutCache.deque, DjangoCache.deque and a directory first created as an evicting Cache with a tiny '
    'size_limit, each with or without the underlying cache reset to a size_limit of 1 byte; oracle = collections.deque(maxlen) step by step (result, exception type, list() after every op; '
    'comparisons with sequence semantics). concurrent: 2-3 producers/consumers (append/appendleft/pop/popleft, with and '
    'without maxlen) under generated schedules; oracle = linearizability against the bounded deque. non-trivial = >= 3 '
    'method kinds incl. a positional one on a deque of length >= 2, or a persistence event; concurrent: two calls '
    'with interleaved statements; distinct by SHA-1 of the case'
)
ASSUMPTIONS = [
    'comparison is judged as documented by _make_compare: list(self) <op> list(other) for any Sequence',
    'maxlen None/inf is not compared as a value',
]

VALS = [0, 1, 2, 'a', ('B', 1), ('B', 2), ('P', 1), None]


def mkv(v):
    if type(v) is tuple and len(v) == 2 and v[0] == 'B':
        return bytes([v[1]]) * 40
    if type(v) is tuple and len(v) == 2 and v[0] == 'P':
        return ['p' * 40, v[1]]
    return v


def seq_ops():
    v = st.sampled_from(VALS)
    i = st.integers(-8, 8)
    vs = st.lists(v, max_size=4)
    return st.one_of(
        st.tuples(st.just('append'), v),
        st.tuples(st.just('append'), v),
        st.tuples(st.just('appendleft'), v),
        st.tuples(st.just('extend'), vs),
        st.tuples(st.just('extend'), st.lists(st.integers(0, 9), min_size=4, max_size=7)),
        st.tuples(st.just('extend'), st.integers(101, 140).map(lambda n: list(range(n)))),  # more than one 100-row page
        st.tuples(st.just('extendleft'), vs),
        st.tuples(st.just('iadd'), vs),
        st.tuples(st.just('pop')),
        st.tuples(st.just('popleft')),
        st.tuples(st.just('peek')),
        st.tuples(st.just('peekleft')),
        st.tuples(st.just('getitem'), i),
        st.tuples(st.just('setitem'), i, v),
        st.tuples(st.just('delitem'), i),
        st.tuples(st.just('rotate'), st.one_of(st.integers(-9, 9), st.sampled_from([0, 1, -1, 100, -100, 1.5, 'x', None, True]))),
        st.tuples(st.just('rotate'), st.integers(-9, 9)),
        st.tuples(st.just('reverse')),
        st.tuples(st.just('remove'), v),
        st.tuples(st.just('count'), v),
        st.tuples(st.just('contains'), v),
        st.tuples(st.just('compare'), st.sampled_from(['eq', 'ne', 'lt', 'le', 'gt', 'ge']), st.sampled_from(['same-list', 'same-tuple', 'same-deque', 'prefix', 'longer', 'bumped', 'empty', 'nonseq', 'longer-small-head', 'shorter-big-head', 'ints'])),
        st.tuples(st.just('iter')),
        st.tuples(st.just('clear')),
        st.tuples(st.just('maxlen'), st.sampled_from([None, 0, 1, 3, 5])),
        st.tuples(st.just('reopen')),
        st.tuples(st.just('pickle')),
        st.tuples(st.just('copy')),
    )


POSITIONAL = {'getitem', 'setitem', 'delitem', 'rotate', 'remove'}


def outcome(fn):
    try:
        return ('ok', fn())
    except Exception as exc:
        return ('exc', type(exc).__name__)


class Sequential(SubCheck):
    name = 'sequential'

    def examples(self, tier):
        return 150 if tier == 'quick' else 4000

    def strategy(self, tier):
        return st.fixed_dictionaries(
            {
                'origin': st.sampled_from(['deque', 'deque-file', 'deque-file', 'fanout', 'django', 'evicting-cache']),
                # the underlying cache's size limit is lowered below what it already occupies: a Deque must not evict anyway
                'pressure': st.booleans(),
                'maxlen': st.sampled_from([None, None, 0, 1, 3]),
                'ops': st.lists(seq_ops(), min_size=1, max_size=40 if tier == 'quick' else 100),
            }
        )

    def execute(self, case, env):
        import operator

        import diskcache

        path = env.scratch.fresh('dq')
        origin, maxlen = case['origin'], case['maxlen']
        holder = None
        if origin == 'deque':
            dq = diskcache.Deque(directory=path, maxlen=maxlen)
        elif origin == 'deque-file':
            dq = diskcache.Deque.fromcache(diskcache.Cache(path, eviction_policy='none', disk_min_file_size=8), maxlen=maxlen)
        elif origin == 'fanout':
            holder = diskcache.FanoutCache(path, shards=2)
            dq = holder.deque('sub/dq', maxlen=maxlen)
        elif origin == 'django':
            from diskcache.djangocache import DjangoCache

            holder = DjangoCache(path, {'SHARDS': 2})
            dq = holder.deque('dq', maxlen=maxlen)
        else:
            c0 = diskcache.Cache(path, size_limit=1000, eviction_policy='least-recently-stored', disk_min_file_size=8)
            c0.close()
            dq = diskcache.Deque(directory=path, maxlen=maxlen)
        if case.get('pressure'):
            dq.cache.reset('size_limit', 1)
        md = collections.deque(maxlen=maxlen)
        kinds = set()
        positional = False
        persisted = False
        trace = []

        def fail(what, detail):
            raise Violation('C11/%s' % what, '%s\norigin=%s maxlen=%r\nhistory tail:\n  %s' % (detail, origin, maxlen, '\n  '.join(short(o, 150) for o in trace[-10:])))

        def cmp(op, real, exp):
            if real[0] != exp[0] or (real[0] == 'exc' and real[1] != exp[1]):
                fail(op[0] + '/result', 'op %s: Deque %s, collections.deque %s' % (short(op), short(real), short(exp)))
            if real[0] == 'ok' and not same(real[1], exp[1]):
                fail(op[0] + '/result', 'op %s: Deque %s, collections.deque %s' % (short(op), short(real[1]), short(exp[1])))

        try:
            for op in case['ops']:
                trace.append(op)
                name = op[0]
                kinds.add(name)
                if name in POSITIONAL and len(md) >= 2:
                    positional = True
                if name in ('append', 'appendleft'):
                    v = mkv(op[1])
                    cmp(op, outcome(lambda: getattr(dq, name)(v)), outcome(lambda: getattr(md, name)(v)))
                elif name in ('extend', 'extendleft'):
                    vs = [mkv(x) for x in op[1]]
                    cmp(op, outcome(lambda: getattr(dq, name)(vs)), outcome(lambda: getattr(md, name)(vs)))
                elif name == 'iadd':
                    vs = [mkv(x) for x in op[1]]
                    before = dq
                    dq += vs
                    md += vs
                    if dq is not before:
                        fail('iadd/identity', '+= did not return the same object')
                elif name in ('pop', 'popleft'):
                    cmp(op, outcome(getattr(dq, name)), outcome(getattr(md, name)))
                elif name == 'peek':
                    cmp(op, outcome(dq.peek), outcome(lambda: md[-1]))
                elif name == 'peekleft':
                    cmp(op, outcome(dq.peekleft), outcome(lambda: md[0]))
                elif name == 'getitem':
                    cmp(op, outcome(lambda: dq[op[1]]), outcome(lambda: md[op[1]]))
                elif name == 'setitem':
                    v = mkv(op[2])
                    cmp(op, outcome(lambda: dq.__setitem__(op[1], v)), outcome(lambda: md.__setitem__(op[1], v)))
                elif name == 'delitem':
                    cmp(op, outcome(lambda: dq.__delitem__(op[1])), outcome(lambda: md.__delitem__(op[1])))
                elif name == 'rotate':
                    cmp(op, outcome(lambda: dq.rotate(op[1])), outcome(lambda: md.rotate(op[1])))
                elif name == 'reverse':
                    cmp(op, outcome(dq.reverse), outcome(md.reverse))
                elif name == 'remove':
                    v = mkv(op[1])
                    cmp(op, outcome(lambda: dq.remove(v)), outcome(lambda: md.remove(v)))
                elif name == 'count':
                    v = mkv(op[1])
                    cmp(op, outcome(lambda: dq.count(v)), outcome(lambda: md.count(v)))
                elif name == 'contains':
                    v = mkv(op[1])
                    cmp(op, outcome(lambda: v in dq), outcome(lambda: v in md))
                elif name == 'compare':
                    fn = getattr(operator, op[1])
                    cur = list(md)
                    kind = op[2]
                    if kind == 'same-list':
                        other = list(cur)
                    elif kind == 'same-tuple':
                        other = tuple(cur)
                    elif kind == 'same-deque':
                        other = collections.deque(cur)
                    elif kind == 'prefix':
                        other = cur[:-1]
                    elif kind == 'longer':
                        other = cur + [0]
                    elif kind == 'bumped':
                        other = [1 if (type(x) is int and x == 0) else 0 for x in cur]
                    elif kind == 'longer-small-head':
                        other = [-1] + cur[1:] + [0, 0] if cur and type(cur[0]) is int else [0] + cur
                    elif kind == 'shorter-big-head':
                        other = [99] + cur[1:-1] if len(cur) >= 2 and type(cur[0]) is int else cur[:-1]
                    elif kind == 'ints':
                        other = [2, 0, 1][: max(0, len(cur) - 1)] + [1]
                    elif kind == 'empty':
                        other = []
                    else:
                        other = 5
                    if kind == 'nonseq':
                        exp = outcome(lambda: fn(cur, other))
                    else:
                        exp = outcome(lambda: fn(cur, list(other)))
                    real = outcome(lambda: fn(dq, other))
                    if real[0] == 'exc' and exp[0] == 'exc':
                        pass  # both refuse (incomparable elements or a non-sequence)
                    else:
                        cmp(op, real, exp)
                elif name == 'iter':
                    cmp(op, outcome(lambda: list(iter(dq))), outcome(lambda: list(md)))
                    cmp(op, outcome(lambda: list(reversed(dq))), outcome(lambda: list(reversed(md))))
                elif name == 'clear':
                    cmp(op, outcome(dq.clear), outcome(md.clear))
                elif name == 'maxlen':
                    maxlen = op[1]
                    if maxlen is None:
                        # documented: maxlen None is stored as infinity
                        dq.maxlen = float('inf')
                    else:
                        dq.maxlen = maxlen
                    md = collections.deque(md, maxlen=maxlen)
                elif name == 'reopen':
                    persisted = True
                    d = dq.directory
                    dq.cache.close()
                    dq = diskcache.Deque(directory=d, maxlen=maxlen)
                elif name == 'pickle':
                    persisted = True
                    dq = pickle.loads(pickle.dumps(dq))
                    if maxlen is not None and dq.maxlen != maxlen:
                        fail('pickle/maxlen', 'unpickled Deque has maxlen %r, expected %r' % (dq.maxlen, maxlen))
                elif name == 'copy':
                    persisted = True
                    new = dq.copy()
                    if maxlen is not None and new.maxlen != maxlen:
                        fail('copy/maxlen', 'copied Deque has maxlen %r, expected %r' % (new.maxlen, maxlen))
                    dq.cache.close()
                    dq = new
                if len(dq) != len(md):
                    fail(name + '/len', 'after %s: len(Deque)=%d, len(deque)=%d' % (short(op), len(dq), len(md)))
                got, want = list(dq), list(md)
                if strict(got) != strict(want):
                    fail(name + '/contents', 'after %s: Deque %s, collections.deque %s' % (short(op), short(got, 300), short(want, 300)))
            nontrivial = (len(kinds) >= 3 and positional) or persisted
            return {'nontrivial': nontrivial, 'classes': ['origin=' + origin, 'maxlen=%r' % (case['maxlen'],)] + (['size-pressure'] if case.get('pressure') else [])}
        finally:
            try:
                dq.cache.close()
            except Exception:
                pass
            if holder is not None:
                try:
                    holder.close()
                except Exception:
                    pass
            env.scratch.drop(path)


# ---------------------------------------------------------------------------------------------
# concurrent


def conc_op(client, idx):
    filev = st.just(('B', 16 * client + idx + 1))
    inline = st.just(100 * client + idx)
    v = st.one_of(filev, inline)
    return st.one_of(
        st.tuples(st.just('append'), v),
        st.tuples(st.just('append'), v),
        st.tuples(st.just('appendleft'), v),
        st.tuples(st.just('pop')),
        st.tuples(st.just('popleft')),
        st.tuples(st.just('popleft')),
        st.tuples(st.just('len')),
        st.tuples(st.just('peekleft')),
        st.tuples(st.just('reopen')),  # a further handle on the directory comes and goes (unpickling constructs one)
    )


@st.composite
def conc_case(draw):
    n = draw(st.integers(2, 3))
    progs = [[draw(conc_op(c, i)) for i in range(draw(st.integers(1, 4)))] for c in range(n)]
    init = draw(st.lists(st.sampled_from([7, 8, ('B', 250), ('B', 251)]), max_size=3))
    schedule = draw(st.lists(st.tuples(st.integers(0, n - 1), st.one_of(st.integers(1, 8), st.sampled_from([12, 16, 24, 40]))), max_size=14))
    # 'shared': the threads use ONE Deque object (what FanoutCache.deque / DjangoCache.deque hand out), 'own': one object each
    return {'init': init, 'maxlen': draw(st.sampled_from([None, None, 1, 2])), 'progs': progs, 'schedule': schedule, 'mode': draw(st.sampled_from(['own', 'own', 'shared']))}


def unmkv(v):
    if type(v) is bytes:
        if v and v == bytes([v[0]]) * len(v) and len(v) == 40:
            return ('B', v[0])
        return ('MIXED', v[:8].hex(), len(v))
    return v


def do_conc(dq, op):
    name = op[0]
    try:
        if name in ('append', 'appendleft'):
            getattr(dq, name)(mkv(op[1]))
            return ('ok', None)
        if name in ('pop', 'popleft', 'peekleft'):
            return ('ok', unmkv(getattr(dq, name)()))
        if name == 'len':
            return ('ok', len(dq))
        if name == 'getitem':
            return ('ok', unmkv(dq[op[1]]))
        if name == 'reopen':
            other = pickle.loads(pickle.dumps(dq))
            other.cache.close()
            return ('ok', None)
    except Exception as exc:
        return ('exc', type(exc).__name__)
    raise HarnessError('unknown op %r' % (op,))


def make_apply(maxlen):
    def apply(state, call):
        d = collections.deque(state, maxlen=maxlen)
        op, res = call.op, call.result
        name = op[0]
        if name in ('append', 'appendleft'):
            getattr(d, name)(op[1])
            exp = ('ok', None)
        elif name in ('pop', 'popleft'):
            exp = ('ok', getattr(d, name)()) if d else ('exc', 'IndexError')
        elif name == 'peekleft':
            exp = ('ok', d[0]) if d else ('exc', 'IndexError')
        elif name == 'len':
            exp = ('ok', len(d))
        elif name == 'getitem':
            exp = ('ok', d[op[1]]) if -len(d) <= op[1] < len(d) else ('exc', 'IndexError')
        elif name == 'reopen':
            exp = ('ok', None)
        else:
            raise HarnessError('model: unknown op %r' % (op,))
        return tuple(d), exp == res

    return apply


class Concurrent(SubCheck):
    name = 'concurrent'

    def examples(self, tier):
        return 250 if tier == 'quick' else 8000

    def strategy(self, tier):
        return conc_case()

    def execute(self, case, env):
        import diskcache

        n = len(case['progs'])
        maxlen = case['maxlen']

        def open_clients(path):
            caches = [diskcache.Cache(path, timeout=0, eviction_policy='none', disk_min_file_size=8) for _ in range(1 if case.get('mode') == 'shared' else n)]
            dqs = [diskcache.Deque.fromcache(c, maxlen=maxlen) for c in caches]
            for v in case['init']:
                dqs[0].append(mkv(v))
            return (dqs * n if case.get('mode') == 'shared' else dqs), caches

        calls, sched = run_scheduled(env, case['progs'], case['schedule'], open_clients, do_conc, 'C11', warm=lambda dq: dq.cache._sql, final_ops=[('len',)] + [('popleft',)] * 8)
        if sched.limit_hit:
            return {'nontrivial': False, 'classes': ['step-limit']}
        mark_interleaved(calls, sched.trace)
        for c in calls:
            if c.result[0] == 'exc' and c.result[1] != 'IndexError':
                raise Violation('C11/unexpected-exception/%s' % c.result[1], 'call %r\n%s' % (c, fmt(calls)))
        init_state = tuple(collections.deque(case['init'], maxlen=maxlen))
        witness = linearize(calls, init_state, make_apply(maxlen), lambda s: s)
        if witness is None:
            raise Violation('C11/linearizability', 'no sequential order explains these results (initial %r, maxlen %r):\n%s' % (init_state, maxlen, fmt(calls)))
        nontrivial = any(a.interleaved for a in calls) and len({c.client for c in calls}) >= 2
        return {'nontrivial': nontrivial, 'classes': ['clients=%d' % n, 'maxlen=%r' % (maxlen,), 'mode=' + case.get('mode', 'own')]}

    def selftest(self, env):
        io_selftest(env)


SUBCHECKS = [Sequential(), Concurrent()]
