"""C05 — every single operation is atomic under concurrent threads and processes."""

import os
import threading

from hypothesis import strategies as st

from ..common import HarnessError, Violation, short
from ..engine import SubCheck
from ..sched import Call, Sched, Stuck, linearize, overlaps
from ..conc import fmt, io_selftest, mark_interleaved, run_scheduled

LEVEL = 'exploration'
RULE = (
    'programs of 2-4 clients x 1-4 calls from {set, add, a set that fails at its row write, incr, decr, get, [], pop, delete, touch, in, len, '
    'list(), close(), construct-and-close a further handle, expire(), begin an iteration and finish it later} on '
    'keys {x, y, n} with inline and file-backed values (distinct fill bytes per writer), a generated initial state (items may have expired before the program starts), a '
    'sharing mode (one Cache object shared by the threads / one Cache object per thread, i.e. separate SQLite '
    'connections), statistics or LRU on in some cases, and a generated schedule: run-length segments [client, steps] '
    'over the yield points (every SQL statement, file open/write/read/close, directory op) + round-robin tail. Oracle: '
    'Wing-Gong linearizability against a dictionary model respecting real-time order, tolerating only a lookup miss '
    'that overlaps a write/removal of the same key; iteration is judged as a weakly consistent scan. non-trivial = two '
    'calls on one key, at least one a write, whose statement sequences actually interleaved in the executed schedule; '
    'distinct by SHA-1 of program + schedule'
)
ASSUMPTIONS = [
    'statement-granular schedules: races inside one SQLite call are not explored here',
    'clients are threads (own SQLite connections or one shared Cache object) and, in scheduled_processes, forked OS processes '
    '(own Cache object or the object inherited from the parent); timeout=0 turns lock contention into an immediate, schedulable retry',
    'calls use retry=True where the method offers it',
]

KEYS = ['x', 'y']


class _Unbindable:
    """A tag SQLite cannot bind: the row write raises after the value file was created."""


UNBINDABLE = _Unbindable()
FINAL_OPS = [('get', 'x'), ('get', 'y'), ('get', 'n'), ('len',), ('getexp', 'x'), ('getexp', 'y'), ('getexp', 'n'), ('list',)]
MISS = 'MISS'
WRITES = {'set', 'add', 'incr', 'decr', 'pop', 'delete', 'setitem'}


def op_strategy(client, idx):
    k = st.sampled_from(KEYS)
    inline = st.just(('s', 'c%d.%d' % (client, idx)))
    filev = st.just(('B', 16 * client + idx + 1, 100))
    v = st.one_of(inline, filev, filev)
    return st.one_of(
        st.tuples(st.just('set'), k, v),
        st.tuples(st.just('set'), k, v),
        st.tuples(st.just('add'), k, v),
        st.tuples(st.just('add'), k, v),
        st.tuples(st.just('set'), k, v, st.just('nr')),  # retry=False: either stores the value or raises Timeout and changes nothing
        st.tuples(st.just('incr'), st.just('n'), st.sampled_from([1, 2]), st.just('nr')),
        st.tuples(st.just('setbad'), k, filev),  # fails inside its transaction after the value file was written: must change nothing
        st.tuples(st.just('get'), k),
        st.tuples(st.just('get'), k),
        st.tuples(st.just('getitem'), k),
        st.tuples(st.just('pop'), k),
        st.tuples(st.just('delete'), k),
        st.tuples(st.just('touch'), k),
        st.tuples(st.just('touch'), k, st.just(1000)),  # gives the item an expiry time far in the future
        st.tuples(st.just('getexp'), k),
        st.tuples(st.just('in'), k),
        st.tuples(st.just('incr'), st.just('n'), st.sampled_from([1, 2, 5])),
        st.tuples(st.just('incr'), st.just('n'), st.sampled_from([1, 2, 5])),
        st.tuples(st.just('decr'), st.just('n'), st.sampled_from([1, 3])),
        st.tuples(st.just('get'), st.just('n')),
        st.tuples(st.just('pop'), st.just('n')),
        st.tuples(st.just('add'), st.just('n'), st.just(('i', 100))),
        st.tuples(st.just('len')),
        st.tuples(st.just('list')),
        st.tuples(st.just('close')),  # closes the caller's connection; the next call reopens it transparently
        st.tuples(st.just('iterstart')),  # the client begins an iteration, takes one key and keeps the iterator while it goes on
        st.tuples(st.just('iterend')),  # ... and drains it later (keys are not judged; the calls in between are)
        st.tuples(st.just('expire')),  # removes the expired items (the generated initial state may hold some)
        st.tuples(st.just('open')),  # a further handle is constructed on the directory (and closed again) while the others work
    )


@st.composite
def program_case(draw, max_clients=4, max_calls=4):
    n = draw(st.integers(2, max_clients))
    progs = []
    for c in range(n):
        m = draw(st.integers(1, max_calls))
        progs.append([draw(op_strategy(c, i)) for i in range(m)])
    init = {}
    for k in KEYS:
        # 'expired-*': stored with a time-to-live that has run out before the program starts: absent for every lookup, still a
        # row (len and iteration show it) until expire() or the lazy cull of somebody's write removes it
        choice = draw(st.sampled_from(['absent', 'inline', 'file', 'inline', 'file', 'expired-inline', 'expired-file']))
        if choice == 'inline':
            init[k] = ('s', 'init-' + k)
        elif choice == 'file':
            init[k] = ('B', 255 if k == 'x' else 254, 100)
        elif choice == 'expired-inline':
            init[k] = ('G', ('s', 'old-' + k))
        elif choice == 'expired-file':
            init[k] = ('G', ('B', 251 if k == 'x' else 250, 100))
    if draw(st.booleans()):
        init['n'] = draw(st.sampled_from([('i', 10), ('i', 10), ('G', ('i', 10))]))
    schedule = draw(st.lists(st.tuples(st.integers(0, n - 1), st.one_of(st.integers(1, 10), st.sampled_from([14, 20, 30, 50]))), max_size=14))
    shaped = draw(st.integers(0, 2)) == 0
    if shaped:
        # built on purpose: SQLite hands the rowid of a deleted last row to the next insert, so an operation that looked its
        # row up before taking the lock may hit a different key afterwards
        victim = draw(st.sampled_from(['x', 'y']))
        other = 'y' if victim == 'x' else 'x'
        first = draw(st.sampled_from([('touch', victim, 1000), ('touch', victim), ('pop', victim), ('delete', victim), ('set', victim, ('s', 'c0.0')), ('get', victim), ('get', victim), ('getitem', victim), ('getexp', victim)]))
        second = [draw(st.sampled_from([('delete', victim), ('pop', victim)])), draw(st.sampled_from([('set', other, ('s', 'c1.1')), ('add', other, ('B', 18, 100)), ('incr', 'n', 1)]))]
        progs = [[first], second] + progs[2:]
        # ... and the interleaving that matters is built too: client 0 stops after a few of its statements, client 1 runs (most of)
        # its two calls, client 0 goes on
        schedule = [(0, draw(st.sampled_from([1, 2, 2, 2, 3, 4, 5]))), (1, draw(st.sampled_from([3, 6, 7, 8, 14, 14, 15, 16, 20, 30]))), (0, draw(st.integers(1, 8)))] + schedule[:8]
        init = {k: v for k, v in init.items() if k not in (victim, other)}
        # inserted last: highest rowid; file-backed victims make a lock-free reader go back to the row after its file vanished
        init[victim] = draw(st.sampled_from([('s', 'init-w'), ('B', 253, 100), ('B', 252, 100)]))
        if draw(st.integers(0, 2)) == 0:
            # the victim has expired: writers look at its row, somebody else's expire()/lazy cull removes it, the rowid is reused
            init[victim] = ('G', init[victim])
            first = draw(st.sampled_from([('add', victim, ('s', 'c0.0')), ('add', victim, ('B', 1, 100)), ('set', victim, ('s', 'c0.0')), ('touch', victim, 1000), ('get', victim), ('pop', victim)]))
            second = [draw(st.sampled_from([('expire',), ('expire',), ('set', victim, ('s', 'c1.0'))])), second[1]]
            progs = [[first], second] + progs[2:]
    lockfree = shaped and draw(st.integers(0, 2)) > 0  # the lookups of this configuration take no lock at all
    return {
        'mode': draw(st.sampled_from(['own', 'own', 'shared'])),
        'statistics': False if lockfree else draw(st.booleans()),
        'policy': 'least-recently-stored' if lockfree else draw(st.sampled_from(['least-recently-stored', 'least-recently-used'])),
        'init': init,
        'progs': progs,
        'schedule': schedule,
    }


GHOST = ('G',)  # model value of an item whose time-to-live ran out before the program started


def mk(spec):
    if spec[0] == 'G':
        return mk(spec[1])
    if spec[0] == 'B':
        return bytes([spec[1]]) * spec[2]
    return spec[1]


def unmk(value):
    """Real value -> spec (or a marker for a torn value)."""
    if type(value) is bytes:
        if len(value) == 0 or value != bytes([value[0]]) * len(value):
            return ('MIXED', value[:8].hex(), len(value))
        return ('B', value[0], len(value))
    if type(value) is str:
        return ('s', value)
    if type(value) is int:
        return ('i', value)
    return ('?', repr(value))


def do_op(cache, op):
    """Execute one call; return a comparable result."""
    name = op[0]
    try:
        if name == 'set':
            r = cache.set(op[1], mk(op[2]), retry=len(op) < 4)
            # (a sharded cache reports the timeout of a retry=False call by returning False / None instead of raising)
            return ('exc', 'Timeout') if len(op) == 4 and r is False else ('ok', r)
        if name == 'add':
            return ('ok', cache.add(op[1], mk(op[2]), retry=True))
        if name == 'setbad':
            return ('ok', cache.set(op[1], mk(op[2]), tag=UNBINDABLE, retry=True))
        if name == 'get':
            r = cache.get(op[1], default=MISS, retry=True)
            return ('ok', MISS if r is MISS or r == MISS else unmk(r))
        if name == 'getexp':
            r = cache.get(op[1], default=MISS, expire_time=True, retry=True)
            return ('ok', MISS if r[0] is MISS or r[0] == MISS else ('no-ttl' if r[1] is None else 'ttl'))
        if name == 'getitem':
            return ('ok', unmk(cache[op[1]]))
        if name == 'pop':
            r = cache.pop(op[1], default=MISS, retry=True)
            return ('ok', MISS if r == MISS else unmk(r))
        if name == 'delete':
            return ('ok', cache.delete(op[1], retry=True))
        if name == 'touch':
            return ('ok', cache.touch(op[1], expire=op[2] if len(op) > 2 else None, retry=True))
        if name == 'in':
            return ('ok', op[1] in cache)
        if name == 'incr':
            r = cache.incr(op[1], op[2], retry=len(op) < 4)
            return ('exc', 'Timeout') if len(op) == 4 and r is None else ('ok', r)
        if name == 'decr':
            return ('ok', cache.decr(op[1], op[2], retry=True))
        if name == 'close':
            # (an iteration this client left suspended ends here: going on with it after closing its connection is misuse)
            vars(cache).get('_verif_iters', {}).pop((threading.get_ident(), os.getpid()), None)
            return ('ok', cache.close())
        if name == 'expire':
            return ('ok', cache.expire(retry=True))
        if name in ('iterstart', 'iterend'):
            iters = vars(cache).setdefault('_verif_iters', {})  # kept on the object: gone with it, never met by a later case
            slot = (threading.get_ident(), os.getpid())
            it = iters.pop(slot, None)
            if name == 'iterstart':
                it = iter(cache)
                next(it, None)
                iters[slot] = it
            elif it is not None:
                for _ in it:
                    pass
            return ('ok', None)
        if name == 'open':
            shards = getattr(cache, '_count', None)
            extra = type(cache)(cache.directory, timeout=0) if shards is None else type(cache)(cache.directory, shards=shards, timeout=0)
            return ('ok', extra.close())
        if name == 'len':
            return ('ok', len(cache))
        if name == 'list':
            return ('ok', tuple(cache))
    except Exception as exc:
        return ('exc', type(exc).__name__)
    raise HarnessError('unknown op %r' % (op,))


def model_apply(state, call):
    """state: tuple of sorted (key, (spec, has_ttl)).  touch(k, 1000) gives the item a (never reached) expiry time, touch(k)
    removes it; getexp reports whether the item carries one.  An item whose spec is GHOST has expired: it is absent for every
    key-addressed call, still counted by len, and removed by expire() and by the lazy cull of every call that inserts or
    replaces a row (set always; add, incr and decr when they do not find a live item).  Returns (new_state, ok)."""
    d = dict(state)
    op, res = call.op, call.result
    name = op[0]
    if res == ('exc', 'Timeout'):
        return state, True  # not applied
    k = op[1] if len(op) > 1 else None
    here = k in d and d[k][0] != GHOST

    def cull():
        for g in [g for g, v in d.items() if v[0] == GHOST]:
            del d[g]

    if name == 'setbad':
        return state, res[0] == 'exc'  # rejected: no effect
    if name in ('close', 'open', 'iterstart', 'iterend'):
        return state, res == ('ok', None)
    if name == 'expire':
        n = sum(1 for v in d.values() if v[0] == GHOST)
        cull()
        exp = ('ok', n)
    elif name == 'set':
        d[k] = (op[2], False)
        cull()
        exp = ('ok', True)
    elif name == 'add':
        if here:
            exp = ('ok', False)
        else:
            d[k] = (op[2], False)
            cull()
            exp = ('ok', True)
    elif name == 'get':
        exp = ('ok', d[k][0] if here else MISS)
    elif name == 'getexp':
        exp = ('ok', ('ttl' if d[k][1] else 'no-ttl') if here else MISS)
    elif name == 'getitem':
        exp = ('ok', d[k][0]) if here else ('exc', 'KeyError')
    elif name == 'pop':
        exp = ('ok', d.pop(k)[0] if here else MISS)
    elif name == 'delete':
        exp = ('ok', here)
        if here:
            del d[k]
    elif name == 'touch':
        exp = ('ok', here)
        if here:
            d[k] = (d[k][0], len(op) > 2 and op[2] is not None)
    elif name == 'in':
        exp = ('ok', here)
    elif name in ('incr', 'decr'):
        delta = op[2] if name == 'incr' else -op[2]
        if here:
            d[k] = (('i', d[k][0][1] + delta), d[k][1])  # a live counter keeps its expiry
        else:
            d[k] = (('i', delta), False)
            cull()
        exp = ('ok', d[k][0][1])
    elif name == 'len':
        exp = ('ok', len(d))
    else:
        raise HarnessError('model: unknown op %r' % (op,))
    return tuple(sorted(d.items())), exp == res


def init_state_of(init):
    return tuple(sorted((k, ((GHOST, True) if spec[0] == 'G' else (spec, False))) for k, spec in init.items()))


def op_key(op):
    return op[1] if len(op) > 1 else None


def is_miss(call):
    return call.result in (('ok', MISS), ('exc', 'KeyError'))


def check_history(calls, init_state, pid='C05'):
    """Linearizability + weak iteration; raises Violation."""
    scans = [c for c in calls if c.op[0] == 'list']
    lin = [c for c in calls if c.op[0] != 'list']
    for c in lin:
        if c.op[0] == 'setbad':
            if c.result[0] != 'exc':
                raise Violation('%s/unbindable-tag-accepted' % pid, 'call %r' % (c,))
            continue
        if c.result[0] == 'exc' and c.result[1] not in ('KeyError', 'Timeout'):
            raise Violation('%s/unexpected-exception/%s' % (pid, c.result[1]), 'call %r raised %s' % (c, c.result[1]))
        if c.result[0] == 'ok' and type(c.result[1]) is tuple and c.result[1] and c.result[1][0] == 'MIXED':
            raise Violation('%s/torn-value' % pid, 'call %r observed a partial or mixed value\n%s' % (c, fmt(calls)))

    def skippable(c):
        if c.op[0] in ('get', 'getitem', 'getexp') and is_miss(c):
            k = op_key(c.op)
            return any(o is not c and o.client != c.client and o.op[0] in WRITES and op_key(o.op) == k and overlaps(o, c) for o in lin)
        return False

    witness = linearize(lin, init_state, model_apply, lambda s: s, skippable)
    if witness is None:
        raise Violation('%s/not-linearizable/%s' % (pid, classify(lin)), 'no sequential order explains these results:\n%s' % fmt(calls))
    for s in scans:
        if s.result[0] != 'ok':
            raise Violation('%s/iteration-raised/%s' % (pid, s.result[1]), 'iteration raised: %r' % (s,))
        got = list(s.result[1])
        if len(got) != len(set(got)):
            raise Violation('%s/iteration-duplicate' % pid, 'iteration returned a key twice: %r\n%s' % (s, fmt(calls)))
        # Witness-independent, conservative bounds (several linearizations may explain the same results, so the scan is
        # not judged against one of them): a key is REQUIRED if some write of it completed before the scan started (or it
        # was there initially) and every successful removal of it either completed before that write began or began after
        # the scan ended; a key is POSSIBLE if it was there initially or a successful write of it began before the scan ended.
        def wrote(c):
            return (c.op[0] in ('set', 'incr', 'decr') and c.result[0] == 'ok') or (c.op[0] == 'add' and c.result == ('ok', True))

        def removed(c):
            return (c.op[0] == 'pop' and c.result[0] == 'ok' and c.result[1] != MISS) or (c.op[0] == 'delete' and c.result == ('ok', True))

        init_keys = {k for k, _ in init_state}
        init_live = {k for k, v in init_state if v[0] != GHOST}  # an expired item may be culled by anybody's write at any time
        possible = set(init_keys)
        required = set()
        keys_seen = init_keys | {op_key(c.op) for c in lin if op_key(c.op) is not None}
        for k in keys_seen:
            ws = [c for c in lin if op_key(c.op) == k and wrote(c)]
            rs = [c for c in lin if op_key(c.op) == k and removed(c)]
            if any(w.inv < s.res for w in ws):
                possible.add(k)
            anchors = ([None] if k in init_live else []) + [w for w in ws if w.res < s.inv]
            for a_ in anchors:
                if all((r.inv > s.res) or (a_ is not None and r.res < a_.inv) for r in rs):
                    required.add(k)
                    break
        if not set(got) <= possible:
            raise Violation('%s/iteration-phantom' % pid, 'iteration returned %r, possible keys %r\n%s' % (got, sorted(possible), fmt(calls)))
        if not required <= set(got):
            raise Violation('%s/iteration-missed-key' % pid, 'iteration returned %r but %r were present throughout\n%s' % (got, sorted(required), fmt(calls)))
    return witness


def classify(lin):
    kinds = sorted({c.op[0] for c in lin if c.op[0] in WRITES})
    return '+'.join(kinds[:3]) or 'reads'


def store_init(env, cache, init):
    """Store the initial items; those marked expired get a time-to-live of one virtual second, then the clock moves on."""
    for k, spec in init.items():
        if spec[0] == 'G':
            cache.set(k, mk(spec), expire=1.0)
        else:
            cache.set(k, mk(spec))
    if any(spec[0] == 'G' for spec in init.values()):
        env.cache['seams'].clock.advance(100.0)  # (installed by run_scheduled before the clients are opened)


def run_program(env, case, inspect=None):
    """Run the scheduled program; returns (calls, init_state, sched)."""
    import diskcache

    n = len(case['progs'])
    kw = dict(timeout=0, disk_min_file_size=64, statistics=case.get('statistics', False), eviction_policy=case.get('policy', 'least-recently-stored'))

    def open_clients(path):
        base = diskcache.Cache(path, **kw)
        store_init(env, base, case['init'])
        if case['mode'] == 'shared':
            return [base] * n, [base]
        caches = [base] + [diskcache.Cache(path, timeout=0) for _ in range(n - 1)]
        return caches, caches

    calls, sched = run_scheduled(env, case['progs'], case['schedule'], open_clients, do_op, 'C05', warm=lambda c: c._sql, inspect=inspect, final_ops=FINAL_OPS)
    return calls, init_state_of(case['init']), sched


class Programs(SubCheck):
    name = 'scheduled_programs'

    def examples(self, tier):
        return 250 if tier == 'quick' else 8000

    def strategy(self, tier):
        return program_case()

    def execute(self, case, env):
        calls, init_state, sched = run_program(env, case)
        if sched.limit_hit:
            return {'nontrivial': False, 'classes': ['step-limit']}
        mark_interleaved(calls, sched.trace)
        check_history(calls, init_state)
        nontrivial = False
        for a in calls:
            for b in calls:
                if a.cid < b.cid and a.client != b.client and op_key(a.op) is not None and op_key(a.op) == op_key(b.op):
                    if (a.op[0] in WRITES or b.op[0] in WRITES) and overlaps(a, b) and (a.interleaved or b.interleaved):
                        nontrivial = True
        classes = ['mode=' + case['mode'], 'clients=%d' % len(case['progs'])]
        if sched.switches:
            classes.append('switched')
        return {'nontrivial': nontrivial, 'classes': classes}

    def selftest(self, env):
        io_selftest(env)


class ProcessPrograms(SubCheck):
    """The same programs with every client in its own OS process (forked): 'own' = each child opens its own Cache on the
    directory, 'inherited' = the children use the Cache object the parent opened before the fork."""

    name = 'scheduled_processes'

    def examples(self, tier):
        return 40 if tier == 'quick' else 1500

    def strategy(self, tier):
        def adapt(c):
            return dict(c, mode='inherited' if c['mode'] == 'shared' else 'own')

        return program_case(max_clients=3, max_calls=3).map(adapt)

    def execute(self, case, env):
        import diskcache

        from ..procsched import run_scheduled_procs

        kw = dict(timeout=0, disk_min_file_size=64, statistics=case.get('statistics', False), eviction_policy=case.get('policy', 'least-recently-stored'))

        def setup(path):
            base = diskcache.Cache(path, **kw)
            store_init(env, base, case['init'])
            return base

        def make_client(path, shared, i):
            if case['mode'] == 'inherited' and i >= 0:
                shared._sql  # the forked child touches the inherited object: it must get its own connection
                return shared
            c = diskcache.Cache(path, timeout=0)
            c._sql
            return c

        calls, run = run_scheduled_procs(env, case['progs'], case['schedule'], setup, make_client, do_op, 'C05', final_ops=FINAL_OPS)
        if run.limit_hit:
            return {'nontrivial': False, 'classes': ['step-limit']}
        mark_interleaved(calls, run.trace)
        check_history(calls, init_state_of(case['init']))
        nontrivial = False
        for a in calls:
            for b in calls:
                if a.cid < b.cid and a.client != b.client and a.client >= 0 and b.client >= 0 and op_key(a.op) is not None and op_key(a.op) == op_key(b.op):
                    if (a.op[0] in WRITES or b.op[0] in WRITES) and overlaps(a, b) and (a.interleaved or b.interleaved):
                        nontrivial = True
        return {'nontrivial': nontrivial, 'classes': ['mode=' + case['mode'], 'clients=%d' % len(case['progs'])]}


SUBCHECKS = [Programs(), ProcessPrograms()]
