"""C17 — check(fix=True) repairs any out-of-band damage; plain check() only reports."""

import itertools
import os
import sqlite3

from hypothesis import strategies as st

from ..audit import Snapshot
from ..common import HarnessError, Violation, run_check, short
from ..engine import SubCheck
from ..model import same

LEVEL = 'fault_enumeration'
RULE = (
    'a cache (Cache, or the shards of a FanoutCache; directory names c, x.val.d, my-cache.db.d) is built with inline, '
    'binary-file, text-file and pickle-file items and then damaged behind the library\'s back by a generated SET of damages: '
    'delete a value file; truncate/extend a binary value file; add stray files (in an existing leaf directory, in new nested '
    'directories, at top level, named *.val or otherwise); add empty directories (nested); overwrite Settings.count / '
    'Settings.size. quick tier: generated damage sets; thorough tier additionally enumerates EVERY subset of <= 3 damage kinds. '
    'Before the damage an aborted transaction block may have replaced and deleted items (contents as before). Oracle: the expected inconsistencies are derived from the damage list; check() reports exactly those (for empty '
    'directories: at least every directory without entries, at most the directories without files below them) and leaves the '
    'audit snapshot unchanged; check(fix=True) reports the same non-directory inconsistencies; a second check() returns []; '
    'undamaged items are value-identical, resized binaries are readable with the file\'s current content, items whose file '
    'was deleted are gone, counters match the audit. non-trivial = >= 2 damage kinds, or a damage that empties a two-level '
    'directory; distinct by SHA-1 of the case'
)
ASSUMPTIONS = [
    'pickle and text value files are only deleted, never resized: the repair is defined on existence and size and cannot make a truncated pickle decodable',
    'warnings are classified by their message prefix (file not found / wrong file size / unknown file / empty directory / Settings.count / Settings.size)',
]

ITEMS = [
    ('k0', 7),
    ('k1', b'B' * 300),
    ('k2', 't' * 300),
    ('k3', {'pad': 'p' * 300}),
    ('k4', b'C' * 500),
    ('k5', 'inline'),
    ('k6', b'D' * 400),
]
FILE_ITEMS = [1, 2, 3, 4, 6]
BINARY_ITEMS = [1, 4, 6]
DAMAGE_KINDS = ['del-file', 'resize', 'stray', 'emptydir', 'count', 'size']


def damage_strategy():
    return st.one_of(
        st.tuples(st.just('del-file'), st.sampled_from(FILE_ITEMS)),
        st.tuples(st.just('del-file'), st.sampled_from(FILE_ITEMS)),
        st.tuples(st.just('resize'), st.sampled_from(BINARY_ITEMS), st.sampled_from([-299, -1, 1, 50, -10**6])),  # -10**6: truncate to 0 bytes
        st.tuples(st.just('stray'), st.sampled_from(['top', 'leaf', 'new1', 'new2', 'leaf-of-deleted']), st.sampled_from(['stray.txt', 'dead.val', 'x.tmp'])),
        st.tuples(st.just('emptydir'), st.sampled_from(['e1', 'e1/e2', 'e3/e4/e5'])),
        st.tuples(st.just('count'), st.sampled_from([-1, 1, 5])),
        st.tuples(st.just('size'), st.sampled_from([-1, 1, 1000])),
    )


def classify(messages, root):
    out = {'file not found': set(), 'wrong file size': set(), 'unknown file': set(), 'empty directory': set(), 'count': 0, 'size': 0, 'other': []}
    for m in messages:
        if m.startswith('file not found: '):
            out['file not found'].add(os.path.relpath(os.path.normpath(m[len('file not found: '):]), root))
        elif m.startswith('wrong file size: '):
            out['wrong file size'].add(os.path.relpath(os.path.normpath(m[len('wrong file size: '):].split(',')[0]), root))
        elif m.startswith('unknown file: '):
            out['unknown file'].add(os.path.relpath(os.path.normpath(m[len('unknown file: '):]), root))
        elif m.startswith('empty directory: '):
            out['empty directory'].add(os.path.relpath(os.path.normpath(m[len('empty directory: '):]), root))
        elif m.startswith('Settings.count'):
            out['count'] += 1
        elif m.startswith('Settings.size'):
            out['size'] += 1
        else:
            out['other'].append(m)
    return out


def dirs_without_entries(root):
    return {os.path.relpath(d, root) for d, ds, fs in os.walk(root) if d != root and not ds and not fs}


def dirs_without_files_below(root, keep=None):
    """Directories whose subtree holds no file (of `keep`, when given)."""
    out = set()
    for d, ds, fs in os.walk(root):
        if d == root:
            continue
        has = False
        for d2, _, fs2 in os.walk(d):
            for f in fs2:
                rel = os.path.relpath(os.path.join(d2, f), root)
                if keep is None or rel in keep:
                    has = True
        if not has:
            out.add(os.path.relpath(d, root))
    return out


class Damage(SubCheck):
    name = 'damage_sets'

    def examples(self, tier):
        return 120 if tier == 'quick' else 2500

    def strategy(self, tier):
        return st.fixed_dictionaries(
            {
                'layout': st.sampled_from(['cache', 'cache', 'fanout']),
                'dirname': st.sampled_from(['c', 'x.val.d', 'my-cache.db.d']),
                'spelling': st.sampled_from(['plain', 'plain', 'dotdot', 'double-slash', 'dot']),  # how the directory path is written
                'n_items': st.integers(3, len(ITEMS)),
                'damages': st.lists(damage_strategy(), min_size=1, max_size=5),
                # before the damage is done, a transaction block on the same object replaces and deletes items (file-backed ones
                # among them) and raises: the contents are as before, and check() must see them that way
                'aborted_block': st.booleans(),
                # the n-th removal of a file or directory that check(fix=True) attempts fails once with an I/O error (0 = none).
                # Either the repair run raises, or - if it returns normally - the cache is repaired all the same.
                'repair_fault': st.sampled_from([0, 0, 0, 1, 2, 3]),
            }
        )

    def enumerate(self, tier):
        if tier == 'quick':
            return None
        rep = {
            'del-file': [('del-file', 1), ('del-file', 2)],
            'resize': [('resize', 4, -1), ('resize', 6, 50), ('resize', 1, -10**6)],
            'stray': [('stray', 'new2', 'dead.val'), ('stray', 'leaf', 'stray.txt'), ('stray', 'top', 'x.tmp')],
            'emptydir': [('emptydir', 'e1/e2'), ('emptydir', 'e3/e4/e5')],
            'count': [('count', 1)],
            'size': [('size', -1)],
        }

        def gen():
            for r in (1, 2, 3):
                for kinds in itertools.combinations(DAMAGE_KINDS, r):
                    for combo in itertools.product(*[rep[k] for k in kinds]):
                        for layout in ('cache', 'fanout'):
                            for dirname in ('c', 'my-cache.db.d'):
                                yield {'layout': layout, 'dirname': dirname, 'spelling': 'plain' if dirname == 'c' else 'dotdot', 'n_items': len(ITEMS), 'damages': list(combo)}

        return gen()

    def execute(self, case, env):
        import diskcache

        base = env.scratch.fresh('c17')
        os.makedirs(base)
        top = os.path.join(base, case['dirname'])
        spelling = case.get('spelling', 'plain')
        opened = top  # the same directory, written in a valid but not normalised way
        if spelling == 'dotdot':
            os.makedirs(os.path.join(base, 'app'))
            opened = os.path.join(base, 'app', '..', case['dirname'])
        elif spelling == 'double-slash':
            opened = base + '//' + case['dirname']
        elif spelling == 'dot':
            opened = os.path.join(base, '.', case['dirname'])
        layout = case['layout']
        items = ITEMS[: case['n_items']]
        if layout == 'cache':
            obj = diskcache.Cache(opened, disk_min_file_size=64)
            roots = [top]
        else:
            obj = diskcache.FanoutCache(opened, shards=2, disk_min_file_size=64)
            roots = [os.path.join(top, '%03d' % i) for i in range(2)]
        try:
            for k, v in items:
                obj[k] = v
            if case.get('aborted_block'):
                class _Abort(Exception):
                    pass

                try:
                    with obj.transact():
                        for k, v in items[:4]:
                            obj[k] = (v + v[:1]) if type(v) in (bytes, str) and v else v
                        del obj[items[-1][0]]
                        raise _Abort()
                except _Abort:
                    pass
            # where did each item land?
            where = {}
            for root in roots:
                for r in Snapshot(root).rows:
                    where[r[1]] = (root, r[10], r[8])
            deleted, resized, strays, emptied, touched = {}, {}, {}, {}, {}
            count_damaged = {root: 0 for root in roots}
            size_damaged = {root: 0 for root in roots}
            kinds = set()
            two_level = False
            for dmg in case['damages']:
                kind = dmg[0]
                if kind in ('del-file', 'resize'):
                    idx = dmg[1]
                    if idx >= len(items):
                        continue
                    key = items[idx][0]
                    root, fn, size = where[key]
                    if fn is None:
                        continue
                    full = os.path.join(root, fn)
                    if kind == 'del-file':
                        if os.path.exists(full):
                            os.remove(full)
                            deleted[key] = (root, fn)
                            resized.pop(key, None)
                            kinds.add(kind)
                            leaf = os.path.dirname(full)
                            if not os.listdir(leaf) and not os.listdir(os.path.dirname(leaf)) == []:
                                if os.listdir(os.path.dirname(leaf)) == [os.path.basename(leaf)]:
                                    two_level = True
                    else:
                        if key in deleted or not os.path.exists(full):
                            continue
                        cur = os.path.getsize(full)
                        new = max(0, cur + dmg[2])
                        with open(full, 'r+b') as f:
                            if new < cur:
                                f.truncate(new)
                            else:
                                f.seek(0, 2)
                                f.write(b'Z' * (new - cur))
                        touched[key] = (root, fn, new)
                        if new != size:
                            resized[key] = (root, fn, new)
                            kinds.add(kind)
                        else:
                            resized.pop(key, None)
                elif kind == 'stray':
                    root = roots[len(strays) % len(roots)]
                    place, name = dmg[1], dmg[2]
                    if place == 'top':
                        d = root
                    elif place == 'new1':
                        d = os.path.join(root, 'zz')
                    elif place == 'new2':
                        d = os.path.join(root, 'zz', 'yy')
                    else:
                        cands = [(r, fn) for k, (r, fn, _) in where.items() if fn is not None and r == root and ((k in deleted) == (place == 'leaf-of-deleted'))]
                        if not cands:
                            continue
                        d = os.path.dirname(os.path.join(root, cands[0][1]))
                    os.makedirs(d, exist_ok=True)
                    full = os.path.join(d, '%d-%s' % (len(strays), name))
                    with open(full, 'w') as f:
                        f.write('stray')
                    strays[full] = root
                    kinds.add(kind)
                elif kind == 'emptydir':
                    root = roots[len(emptied) % len(roots)]
                    d = os.path.join(root, dmg[1])
                    os.makedirs(d, exist_ok=True)
                    emptied[d] = root
                    kinds.add(kind)
                    if '/' in dmg[1]:
                        two_level = True
                elif kind in ('count', 'size'):
                    root = roots[0]
                    con = sqlite3.connect(os.path.join(root, 'cache.db'))
                    try:
                        con.execute('UPDATE Settings SET value = value + ? WHERE key = ?', (dmg[1], kind))
                        con.commit()
                    finally:
                        con.close()
                    if kind == 'count':
                        count_damaged[root] += dmg[1]
                    else:
                        size_damaged[root] += dmg[1]
                    kinds.add(kind)
            desc = 'layout=%s dir=%s path-spelling=%s items=%d damages=%s' % (layout, case['dirname'], spelling, len(items), short(case['damages'], 400))

            # ---- plain check(): reports exactly the damage, changes nothing --------------------------
            before = [Snapshot(r).key() for r in roots]
            msgs = run_check(obj)
            after = [Snapshot(r).key() for r in roots]
            if before != after:
                raise Violation('C17/plain-check-changed-state', 'check() without fix changed the directory\n%s' % desc)
            self.compare_reports(case, roots, msgs, deleted, resized, strays, count_damaged, size_damaged, fix=False, desc=desc)
            # ---- check(fix=True) -----------------------------------------------------------------------
            surviving = {}
            for root in roots:
                keep = set()
                for k, (r, fn, _) in where.items():
                    if r == root and fn is not None and k not in deleted:
                        keep.add(os.path.normpath(fn))
                surviving[root] = keep
            allowed_fix = {root: dirs_without_files_below(root, surviving[root]) for root in roots}
            faulted = False
            if case.get('repair_fault'):
                import errno

                from ..conc import get_seams
                from ..seams import Controller

                seams = get_seams(env)

                class FailRemoval(Controller):
                    n = 0
                    fired = False

                    def event(self_, kind, label, con=None):
                        if kind in ('remove', 'rmdir', 'removedirs') and not self_.fired:
                            self_.n += 1
                            if self_.n == case['repair_fault']:
                                self_.fired = True
                                raise OSError(errno.EIO, 'Input/output error')

                ctl = FailRemoval()
                seams.ctl = ctl
                try:
                    first = None
                    try:
                        first = run_check(obj, fix=True)
                        raised = False
                    except OSError:
                        raised = True
                finally:
                    seams.ctl = Controller()
                faulted = ctl.fired
                if faulted and not raised:
                    left = run_check(obj)
                    if left:
                        raise Violation('C17/repair-error-swallowed', 'a removal failed during check(fix=True) (I/O error at removal %d), the call returned normally, and a second check() reports %s\n%s' % (case['repair_fault'], short(left, 400), desc))
            if case.get('repair_fault') and not faulted:
                msgs_fix = first  # (fewer removals than the fault's ordinal: that was an ordinary, complete repair run)
            else:
                msgs_fix = run_check(obj, fix=True)
            if not faulted:  # (after an interrupted repair run the second one has less left to report)
                self.compare_reports(case, roots, msgs_fix, deleted, resized, strays, count_damaged, size_damaged, fix=True, desc=desc, allowed_dirs=allowed_fix)
            # ---- convergence ---------------------------------------------------------------------------
            msgs2 = run_check(obj)
            if msgs2:
                c2 = classify(msgs2, roots[0])
                kind = 'parent-of-removed-dir' if all(m.startswith('empty directory') for m in msgs2) else 'other'
                raise Violation('C17/not-convergent/%s' % kind, 'after check(fix=True) a second check() still reports %s\nfirst repair run reported %s\n%s' % (short(msgs2, 400), short(msgs_fix, 400), desc))
            # ---- contents ------------------------------------------------------------------------------
            for k, v in items:
                got = obj.get(k, 'MISSING')
                if k in deleted:
                    if not (type(got) is str and got == 'MISSING'):
                        raise Violation('C17/deleted-item-survives', 'the file of %r was deleted, after the repair get() gives %s\n%s' % (k, short(got, 80), desc))
                elif k in touched:
                    root, fn, new = touched[k]
                    with open(os.path.join(root, fn), 'rb') as f:
                        cur = f.read()
                    if not same(got, cur):
                        raise Violation('C17/resized-item-unreadable', 'item %r with a resized file reads %s, the file holds %d bytes\n%s' % (k, short(got, 80), len(cur), desc))
                elif not same(got, v):
                    raise Violation('C17/undamaged-item-changed', 'undamaged item %r reads %s after the repair\n%s' % (k, short(got, 80), desc))
            for root in roots:
                probs = Snapshot(root).problems()
                if probs:
                    raise Violation('C17/repair-incomplete/%s' % probs[0][0], 'after the repair the audit still finds %s\n%s' % (short(probs, 300), desc))
            n_expected = len([k for k, _ in items if k not in deleted])
            if len(obj) != n_expected:
                raise Violation('C17/repair-incomplete/len', 'after the repair len = %d, expected %d\n%s' % (len(obj), n_expected, desc))
            return {'nontrivial': len(kinds) >= 2 or two_level, 'classes': ['layout=' + layout, 'dir=' + case['dirname'], 'spelling=' + spelling] + sorted('damage=' + k for k in kinds)}
        finally:
            try:
                obj.close()
            except Exception:
                pass
            env.scratch.drop(base)

    def compare_reports(self, case, roots, msgs, deleted, resized, strays, count_damaged, size_damaged, fix, desc, allowed_dirs=None):
        how = 'check(fix=True)' if fix else 'check()'
        def path_of(m):
            if m.startswith('Settings.'):
                return None
            rest = m.split(': ', 1)[1] if ': ' in m else m
            return os.path.normpath(rest.split(',')[0])

        for root in roots:
            mine = []
            for m in msgs:
                pth = path_of(m)
                if pth is None:
                    if root == roots[0]:
                        mine.append(m)  # counter messages carry no path: the damaged shard is the first one
                elif pth == root or pth.startswith(root + os.sep):
                    mine.append(m)
                elif len(roots) == 1:
                    mine.append(m)
            got = classify(mine, root)
            want_missing = {os.path.normpath(fn) for k, (r, fn) in deleted.items() if r == root}
            want_size = {os.path.normpath(fn) for k, (r, fn, _) in resized.items() if r == root}
            want_unknown = {os.path.relpath(p, root) for p, r in strays.items() if r == root}
            if got['other']:
                raise Violation('C17/unexpected-warning', '%s reports %s\n%s' % (how, short(got['other'], 300), desc))
            for label, g, w in (('file not found', got['file not found'], want_missing), ('wrong file size', got['wrong file size'], want_size), ('unknown file', got['unknown file'], want_unknown)):
                if g != w:
                    missing = sorted(w - g)
                    extra = sorted(g - w)
                    cls = 'not-reported' if missing else 'reported-without-damage'
                    tag = label.replace(' ', '-')
                    if missing and label == 'unknown file' and 'cache.db' in os.path.basename(os.path.dirname(root + os.sep)) + case['dirname']:
                        tag = 'dbname-substring'
                    raise Violation('C17/%s/%s' % (cls, tag), '%s: %s expected %s, reported %s (missing %s, extra %s)\n%s' % (how, label, sorted(w), sorted(g), missing, extra, desc))
            want_count = 1 if count_damaged[root] else 0
            want_sz = 1 if size_damaged[root] else 0
            if got['count'] != want_count:
                raise Violation('C17/%s/count' % ('not-reported' if want_count else 'reported-without-damage'), '%s reported the count mismatch %d time(s), expected %d\n%s' % (how, got['count'], want_count, desc))
            if got['size'] != want_sz:
                raise Violation('C17/%s/size' % ('not-reported' if want_sz else 'reported-without-damage'), '%s reported the size mismatch %d time(s), expected %d\n%s' % (how, got['size'], want_sz, desc))
            if not fix:
                required = dirs_without_entries(root)
                allowed = dirs_without_files_below(root)
            else:
                required = set()
                allowed = allowed_dirs[root]
            g = got['empty directory']
            if not required <= g:
                raise Violation('C17/not-reported/empty-directory', '%s did not report the empty directories %s (reported %s)\n%s' % (how, sorted(required - g), sorted(g), desc))
            if not g <= allowed:
                raise Violation('C17/reported-without-damage/empty-directory', '%s reported %s as empty\n%s' % (how, sorted(g - allowed), desc))


SUBCHECKS = [Damage()]
