"""Reference model of one Cache used by one client (DESIGN Appendix B).

The model is stepped *after* the real call, with the interval (t0, t1] that contains every clock reading
the call made.  Expiry times are kept as intervals [lo, hi]; by construction of the virtual clock an
expiry instant never falls inside a call's interval, so liveness is decided identically for every value
in the interval and for both comparison conventions used by the code (`>` and `<`).
"""

import pickle
import pickletools

from .common import HarnessError

INT64_MIN = -(2**63)
INT64_MAX = 2**63 - 1


def strict(x):
    """Type-and-structure canonical form (identity of non-native keys, strict value equality)."""
    t = type(x)
    if t is float:
        import struct

        if x != x:
            return ('float', 'nan')
        return ('float', struct.pack('>d', x))
    if t in (int, bool, str, bytes) or x is None:
        return (t.__name__, x)
    if t in (tuple, list):
        return (t.__name__, tuple(strict(v) for v in x))
    if t in (set, frozenset):
        return (t.__name__, frozenset(strict(v) for v in x))
    if t is dict:
        return ('dict', tuple((strict(k), strict(v)) for k, v in x.items()))
    return (t.__name__, repr(x))


def ident(k):
    """Key identity under the documented rule for Disk (tutorial: Disk, Caveats)."""
    t = type(k)
    if (t is int and INT64_MIN <= k <= INT64_MAX) or t is float:
        return ('num', k)
    if t is str:
        return ('str', k)
    if t is bytes:
        return ('bytes', k)
    return ('obj', strict(k))


def ident_str(k):
    """ident() as a canonical string (numerically equal keys give the same string)."""
    i = ident(k)
    if i[0] == 'num':
        v = i[1]
        if v == v and v not in (float('inf'), float('-inf')) and v == int(v):
            return 'num:%d' % int(v)
        return 'num:%r' % float(v)
    return repr(i)


def same(a, b):
    """Strict value equality: same type, floats by sign/inf/nan, containers recursively."""
    return strict(a) == strict(b)


def sort_key(k, protocol=pickle.HIGHEST_PROTOCOL):
    """SQLite ordering of the key column, ties by the raw flag."""
    i = ident(k)
    if i[0] == 'num':
        return (1, k, 1)
    if i[0] == 'str':
        return (2, k.encode('utf-8', 'surrogatepass'), 1)
    if i[0] == 'bytes':
        return (3, k, 1)
    return (3, pickletools.optimize(pickle.dumps(k, protocol=protocol)), 0)


class Item:
    __slots__ = ('key', 'value', 'lo', 'hi', 'tag', 'store_seq', 'access_seq', 'access_count', 'file', 'seen_live')

    def __init__(self, key, value, lo, hi, tag, seq, file=False):
        self.key = key
        self.value = value
        self.lo = lo  # None = never expires
        self.hi = hi
        self.tag = tag
        self.store_seq = seq
        self.access_seq = seq
        self.access_count = 0
        self.file = file
        self.seen_live = False

    def __repr__(self):
        return 'Item(%r,%r,exp=%r,tag=%r)' % (self.key, _short(self.value), self.lo, self.tag)


def _short(v):
    r = repr(v)
    return r if len(r) < 60 else r[:50] + '...'


class CacheModel:
    def __init__(self, statistics=False, policy='least-recently-stored', protocol=pickle.HIGHEST_PROTOCOL):
        self.items = {}  # ident -> Item, insertion ordered (re-assignment keeps position)
        self.statistics = bool(statistics)
        self.hits = 0
        self.misses = 0
        self.seq = 0
        self.policy = policy
        self.protocol = protocol
        self.both_sides = 0  # lookups of an item after its expiry that had been looked up before it

    # -- time ----------------------------------------------------------------------------------
    def live(self, item, t0, t1):
        if item.lo is None:
            return True
        if item.lo > t1:
            return True
        if item.hi <= t0:
            return False
        raise HarnessError('expiry instant inside a call interval: %r (%r,%r]' % (item, t0, t1))

    def expired(self, item, t0, t1):
        return not self.live(item, t0, t1)

    def _exp(self, ttl, t0, t1):
        if ttl is None:
            return None, None
        return t0 + ttl, t1 + ttl

    def tick(self):
        self.seq += 1
        return self.seq

    # -- writes --------------------------------------------------------------------------------
    def set(self, key, value, ttl, tag, t0, t1, file=False):
        i = ident(key)
        lo, hi = self._exp(ttl, t0, t1)
        seq = self.tick()
        old = self.items.get(i)
        if old is None:
            self.items[i] = Item(key, value, lo, hi, tag, seq, file)
        else:
            old.value, old.lo, old.hi, old.tag, old.file = value, lo, hi, tag, file
            old.store_seq = old.access_seq = seq
            old.access_count = 0
        return True

    def add(self, key, value, ttl, tag, t0, t1, file=False):
        old = self.items.get(ident(key))
        if old is not None and self.live(old, t0, t1):
            return False
        return self.set(key, value, ttl, tag, t0, t1, file)

    def touch(self, key, ttl, t0, t1):
        old = self.items.get(ident(key))
        if old is None or not self.live(old, t0, t1):
            return False
        old.lo, old.hi = self._exp(ttl, t0, t1)
        return True

    def incr(self, key, delta, default, t0, t1):
        """Returns (result, wrote_new) ; raises KeyError."""
        i = ident(key)
        old = self.items.get(i)
        if old is None or not self.live(old, t0, t1):
            if default is None:
                raise KeyError(key)
            value = default + delta
            seq = self.tick()
            if old is None:
                self.items[i] = Item(key, value, None, None, None, seq)
            else:
                old.value, old.lo, old.hi, old.tag, old.file = value, None, None, None, False
                old.store_seq = old.access_seq = seq
                old.access_count = 0
            return value, True
        old.value = old.value + delta
        seq = self.tick()
        old.store_seq = seq
        old.access_seq = seq
        old.access_count += 1
        return old.value, False

    # -- reads ---------------------------------------------------------------------------------
    def lookup(self, key, t0, t1, count=True):
        """Return the live Item or None; updates statistics and policy keys like get()."""
        old = self.items.get(ident(key))
        if old is None or not self.live(old, t0, t1):
            if old is not None and old.seen_live:
                self.both_sides += 1
            if count and self.statistics:
                self.misses += 1
            return None
        if old.lo is not None:
            old.seen_live = True
        if count:
            if self.statistics:
                self.hits += 1
            old.access_seq = self.tick()
            old.access_count += 1
        return old

    def contains(self, key, t0, t1):
        return self.lookup(key, t0, t1, count=False) is not None

    def pop(self, key, t0, t1):
        old = self.lookup(key, t0, t1, count=False)
        if old is None:
            return None
        del self.items[ident(key)]
        return old

    def delete(self, key, t0, t1):
        return self.pop(key, t0, t1) is not None

    def peekitem(self, last, t0, t1):
        """Return (item, removed_expired_items) ; raises KeyError when nothing is left."""
        removed = []
        while self.items:
            i = next(reversed(self.items)) if last else next(iter(self.items))
            item = self.items[i]
            if self.live(item, t0, t1):
                return item, removed
            removed.append(item)
            del self.items[i]
        raise KeyError('dictionary is empty')

    # -- queues --------------------------------------------------------------------------------
    def queue_members(self, prefix):
        """Items inside the key range of the queue `prefix`, front to back."""
        out = []
        if prefix is None:
            for it in self.items.values():
                i = ident(it.key)
                if i[0] == 'num' and 0 < it.key < 999999999999999:
                    out.append(it)
            out.sort(key=lambda it: it.key)
        else:
            lo = (prefix + '-000000000000000').encode('utf-8', 'surrogatepass')
            hi = (prefix + '-999999999999999').encode('utf-8', 'surrogatepass')
            for it in self.items.values():
                if type(it.key) is str and lo < it.key.encode('utf-8', 'surrogatepass') < hi:
                    out.append(it)
            out.sort(key=lambda it: it.key.encode('utf-8', 'surrogatepass'))
        return out

    def push(self, value, prefix, side, ttl, tag, t0, t1, file=False):
        members = self.queue_members(prefix)
        if members:
            edge = members[-1] if side == 'back' else members[0]
            if prefix is None:
                num = edge.key
            else:
                num = int(edge.key[edge.key.rfind('-') + 1:])
            num = num + 1 if side == 'back' else num - 1
        else:
            num = 500000000000000
        key = num if prefix is None else '{0}-{1:015d}'.format(prefix, num)
        lo, hi = self._exp(ttl, t0, t1)
        self.items[ident(key)] = Item(key, value, lo, hi, tag, self.tick(), file)
        return key

    def pull(self, prefix, side, t0, t1, remove=True):
        """Return (item or None, removed expired items)."""
        removed = []
        while True:
            members = self.queue_members(prefix)
            if not members:
                return None, removed
            head = members[0] if side == 'front' else members[-1]
            if self.live(head, t0, t1):
                if remove:
                    del self.items[ident(head.key)]
                return head, removed
            removed.append(head)
            del self.items[ident(head.key)]

    # -- bulk ----------------------------------------------------------------------------------
    def clear(self):
        n = len(self.items)
        self.items.clear()
        return n

    def evict(self, tag):
        gone = [i for i, it in self.items.items() if it.tag is not None and type(it.tag) is type(tag) and it.tag == tag]
        for i in gone:
            del self.items[i]
        return len(gone)

    def expire(self, t0, t1):
        gone = [i for i, it in self.items.items() if not self.live(it, t0, t1)]
        for i in gone:
            del self.items[i]
        return len(gone)

    def n_expired(self, t0, t1):
        return sum(1 for it in self.items.values() if not self.live(it, t0, t1))

    # -- views ---------------------------------------------------------------------------------
    def keys(self):
        return [it.key for it in self.items.values()]

    def sorted_keys(self):
        return sorted((it.key for it in self.items.values()), key=lambda k: sort_key(k, self.protocol))

    def stats(self, enable, reset):
        res = (self.hits, self.misses)
        if reset:
            self.hits = self.misses = 0
        self.statistics = bool(enable)
        return res

    def remove_ident(self, i):
        del self.items[i]

    def policy_key(self, item):
        if self.policy == 'least-recently-stored':
            return item.store_seq
        if self.policy == 'least-recently-used':
            return item.access_seq
        if self.policy == 'least-frequently-used':
            return item.access_count
        return None
