"""Shared plumbing: repo import, codec, violations, scratch dirs, known findings, evidence."""

import hashlib
import json
import os
import shutil
import struct
import sys
import time as _time

VERIF = os.path.dirname(os.path.dirname(os.path.abspath(__file__)))
REPO = os.path.abspath(os.environ.get('VERIF_REPO', '/repo'))
SHM = '/dev/shm' if os.path.isdir('/dev/shm') else '/tmp'


class HarnessError(Exception):
    """The harness itself is broken (exit 2, never a VIOLATION)."""


class Violation(Exception):
    """The property was broken by the code under test."""

    def __init__(self, signature, detail=''):
        super().__init__('%s: %s' % (signature, detail))
        self.signature = signature
        self.detail = detail


def import_repo():
    """Import diskcache from REPO (the working tree *is* the build)."""
    if REPO not in sys.path or sys.path[0] != REPO:
        sys.path.insert(0, REPO)
    for name in list(sys.modules):
        if name == 'diskcache' or name.startswith('diskcache.'):
            mod = sys.modules[name]
            path = getattr(mod, '__file__', '') or ''
            if not os.path.abspath(path).startswith(REPO + os.sep):
                del sys.modules[name]
    import diskcache  # noqa

    path = os.path.abspath(diskcache.__file__)
    if not path.startswith(REPO + os.sep):
        raise HarnessError('diskcache imported from %s, not %s' % (path, REPO))
    return diskcache


# ---------------------------------------------------------------------------------------------
# JSON codec that loses nothing


def enc(x):
    if x is None or x is True or x is False:
        return x
    t = type(x)
    if t is int:
        if -(2**53) < x < 2**53:
            return x
        return {'i': str(x)}
    if t is float:
        return {'f': struct.pack('>d', x).hex()}
    if t is str:
        try:
            x.encode('utf-8')
            return x
        except UnicodeEncodeError:
            return {'s': x.encode('utf-16-le', 'surrogatepass').hex()}
    if t is bytes:
        return {'b': x.hex()}
    if t is tuple:
        return {'t': [enc(v) for v in x]}
    if t is list:
        return [enc(v) for v in x]
    if t is dict:
        return {'d': [[enc(k), enc(v)] for k, v in x.items()]}
    if t is frozenset:
        return {'fs': sorted((enc(v) for v in x), key=lambda e: json.dumps(e, sort_keys=True))}
    if t is set:
        return {'set': sorted((enc(v) for v in x), key=lambda e: json.dumps(e, sort_keys=True))}
    raise TypeError('cannot encode %r' % (x,))


def dec(x):
    if x is None or x is True or x is False or type(x) in (int, str):
        return x
    if type(x) is float:  # only from hand-written files
        return x
    if type(x) is list:
        return [dec(v) for v in x]
    if type(x) is dict:
        ((k, v),) = x.items()
        if k == 'i':
            return int(v)
        if k == 'f':
            return struct.unpack('>d', bytes.fromhex(v))[0]
        if k == 's':
            return bytes.fromhex(v).decode('utf-16-le', 'surrogatepass')
        if k == 'b':
            return bytes.fromhex(v)
        if k == 't':
            return tuple(dec(e) for e in v)
        if k == 'd':
            return {dec(a): dec(b) for a, b in v}
        if k == 'fs':
            return frozenset(dec(e) for e in v)
        if k == 'set':
            return set(dec(e) for e in v)
    raise TypeError('cannot decode %r' % (x,))


def rebuild(x):
    """One deterministic builder: through JSON text, so no two sub-objects are shared (pickle memo caveat, issue #54)."""
    return dec(json.loads(json.dumps(enc(x))))


def case_hash(case):
    data = json.dumps(enc(case), sort_keys=True).encode('utf-8')
    return hashlib.sha1(data).hexdigest()[:20]


def short(x, n=300):
    s = repr(x)
    return s if len(s) <= n else s[: n - 20] + '...<%d chars>' % len(s)


# ---------------------------------------------------------------------------------------------
# scratch directories


class Scratch:
    """Per-process scratch root under /dev/shm; removed on close."""

    def __init__(self, tag='w'):
        self.root = os.path.join(SHM, 'verif-%d-%s' % (os.getpid(), tag))
        shutil.rmtree(self.root, ignore_errors=True)
        os.makedirs(self.root)
        self.n = 0

    def fresh(self, name='c'):
        self.n += 1
        path = os.path.join(self.root, '%s%d' % (name, self.n))
        return path

    def drop(self, path):
        shutil.rmtree(path, ignore_errors=True)

    def close(self):
        shutil.rmtree(self.root, ignore_errors=True)


def sweep_stale():
    """Remove scratch roots of dead processes."""
    try:
        names = os.listdir(SHM)
    except OSError:
        return
    for name in names:
        if not name.startswith('verif-'):
            continue
        parts = name.split('-')
        try:
            pid = int(parts[1])
        except (IndexError, ValueError):
            continue
        if not os.path.exists('/proc/%d' % pid):
            shutil.rmtree(os.path.join(SHM, name), ignore_errors=True)


# ---------------------------------------------------------------------------------------------
# known findings


class KnownFindings:
    """KNOWN_FINDINGS.txt: 'known: property=<id> signature=<sig> replay=<file> <text>' and
    'fixed: property=<id> <commit> <text>'.  Never written at run time."""

    def __init__(self, path=None):
        self.path = path or os.path.join(VERIF, 'KNOWN_FINDINGS.txt')
        self.known = []  # dicts
        self.fixed = []
        if os.path.exists(self.path):
            for line in open(self.path, encoding='utf-8'):
                line = line.strip()
                if not line or line.startswith('#'):
                    continue
                if line.startswith('known:'):
                    rest = line[len('known:'):].split()
                    ent = {'text': []}
                    for tok in rest:
                        if '=' in tok and tok.split('=', 1)[0] in ('property', 'signature', 'replay') and tok.split('=', 1)[0] not in ent:
                            k, v = tok.split('=', 1)
                            ent[k] = v
                        else:
                            ent['text'].append(tok)
                    ent['text'] = ' '.join(ent['text'])
                    self.known.append(ent)
                elif line.startswith('fixed:'):
                    self.fixed.append(line)

    def for_property(self, pid):
        return [e for e in self.known if e.get('property') == pid]

    def signatures(self, pid):
        return {e['signature'] for e in self.for_property(pid)}


# ---------------------------------------------------------------------------------------------
# evidence


def write_evidence(pid, tier, seed, level, coverage, wall_s, violations, assumptions):
    out = {
        'property_id': pid,
        'tier': tier,
        'seed': int(seed),
        'level': level,
        'coverage': coverage,
        'assumptions': assumptions,
        'wall_s': round(wall_s, 3),
        'violations': int(violations),
    }
    d = os.path.join(VERIF, 'evidence')
    if os.environ.get('VERIF_NO_EVIDENCE'):
        d = os.path.join(SHM, 'verif-noevidence')
    os.makedirs(d, exist_ok=True)
    path = os.path.join(d, '%s.json' % pid)
    tmp = path + '.tmp'
    with open(tmp, 'w', encoding='utf-8') as f:
        json.dump(out, f, indent=1, sort_keys=True)
        f.write('\n')
    os.replace(tmp, path)
    return path


def write_replay(pid, check, case, signature, detail, tier, seed):
    d = os.path.join(VERIF, 'replays', pid)
    if os.environ.get('VERIF_NO_EVIDENCE'):
        d = os.path.join(SHM, 'verif-noevidence', 'replays', pid)
    os.makedirs(d, exist_ok=True)
    body = {
        'property': pid,
        'check': check,
        'tier': tier,
        'seed': int(seed),
        'signature': signature,
        'detail': detail[:4000],
        'case': enc(case),
    }
    name = hashlib.sha1(json.dumps(body['case'], sort_keys=True).encode()).hexdigest()[:16]
    path = os.path.join(d, '%s-%s.json' % (check, name))
    with open(path, 'w', encoding='utf-8') as f:
        json.dump(body, f, indent=1, sort_keys=True)
        f.write('\n')
    return path


def load_replay(path):
    body = json.load(open(path, encoding='utf-8'))
    body['case'] = dec(body['case'])
    return body


def now():
    return _time.monotonic()


def run_check(obj, **kw):
    """obj.check(**kw) with every warning recorded (the default filters show a repeated message only once)."""
    import warnings

    with warnings.catch_warnings():
        warnings.simplefilter('always')
        return [str(w.message) for w in obj.check(**kw)]
