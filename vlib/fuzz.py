"""Coverage-guided tier: atheris (libFuzzer) drives the same @given test through hypothesis.fuzz_one_input.

Child mode:  python -m vlib.fuzz child <module> <subcheck> <runs> <seed> <workdir> <corpus: empty|seeded>
The child instruments the diskcache package, runs the campaign and writes <workdir>/stats.json; on a violation it
writes <workdir>/violation.json (signature, detail, encoded case) and exits with status 77.
"""

import json
import os
import subprocess
import sys
import time

from . import common
from .common import HarnessError, Violation
from .engine import SubCheck

DEPS = os.path.join(common.VERIF, '.deps')


def available():
    return os.path.isdir(os.path.join(DEPS, 'atheris'))


class FuzzCampaign(SubCheck):
    """Wraps another SubCheck: each enumerated case is one libFuzzer campaign run in a subprocess."""

    exhaustive = False
    case_timeout_s = None  # one 'case' is a whole campaign in a subprocess with its own time limit

    def __init__(self, module, sub, runs_quick, runs_thorough, campaigns_quick=2, campaigns_thorough=16):
        self.module = module
        self.sub = sub
        self.name = sub.name + '_atheris'
        self.runs = {'quick': runs_quick, 'thorough': runs_thorough}
        self.campaigns = {'quick': campaigns_quick, 'thorough': campaigns_thorough}

    def examples(self, tier):
        return 0

    def enumerate(self, tier):
        for i in range(self.campaigns[tier]):
            yield {'campaign': i, 'runs': self.runs[tier], 'corpus': 'empty' if i % 2 == 0 else 'seeded'}

    def execute(self, case, env):
        if 'replay_of' in case:
            return self.sub.execute(case['case'], env)
        if not available():
            return {'nontrivial': False, 'classes': ['atheris-not-installed']}
        work = env.scratch.fresh('fuzz')
        os.makedirs(work)
        seed = env.seed * 1000 + case['campaign'] + 1
        cmd = [sys.executable, '-m', 'vlib.fuzz', 'child', self.module, self.sub.name, str(case['runs']), str(seed), work, case['corpus'], env.tier]
        envv = dict(os.environ, PYTHONPATH=common.VERIF + os.pathsep + DEPS, PYTHONHASHSEED='0', PYTHONDONTWRITEBYTECODE='1')
        try:
            p = subprocess.run(cmd, cwd=common.VERIF, env=envv, capture_output=True, text=True, timeout=1500)
            stats = {}
            sp = os.path.join(work, 'stats.json')
            if os.path.exists(sp):
                stats = json.load(open(sp))
            vp = os.path.join(work, 'violation.json')
            if os.path.exists(vp):
                body = json.load(open(vp))
                v = Violation(body['signature'], body['detail'] + '\n(found by the atheris campaign %r)' % (case,))
                v.min_case = {'replay_of': self.sub.name, 'case': common.dec(body['case'])}
                raise v
            if p.returncode != 0:
                raise HarnessError('atheris child failed (%d): %s' % (p.returncode, (p.stderr or p.stdout)[-1500:]))
            return {
                'count': stats.get('executions', 0),
                'nontrivial_keys': ['%s/%d/%s' % (self.name, case['campaign'], h) for h in stats.get('nontrivial', [])],
                'class_counts': dict(stats.get('classes', {}), **{'campaigns': 1, 'corpus=' + case['corpus']: 1}),
            }
        finally:
            env.scratch.drop(work)

    def replay_case(self, case, env):
        return self.sub.execute(case['case'], env)

    def describe(self, case):
        return case


def child(module, subname, runs, seed, work, corpus, tier):
    import atheris

    with atheris.instrument_imports(include=['diskcache'], enable_loader_override=False):
        common.import_repo()
        import diskcache.core  # noqa
        import diskcache.fanout  # noqa
        import diskcache.persistent  # noqa
        import diskcache.recipes  # noqa
    import hypothesis
    from hypothesis import HealthCheck, given, settings

    from .engine import Env

    mod = __import__('vlib.props.' + module, fromlist=['SUBCHECKS'])
    sub = [s for s in mod.SUBCHECKS if s.name == subname][0]
    env = Env(tier, seed, 0, tag='fz%d' % os.getpid())
    known = common.KnownFindings().signatures(module.upper())
    stats = {'executions': 0, 'nontrivial': [], 'classes': {}}
    seen = set()

    def flush():
        with open(os.path.join(work, 'stats.json.tmp'), 'w') as f:
            json.dump(stats, f)
        os.replace(os.path.join(work, 'stats.json.tmp'), os.path.join(work, 'stats.json'))

    @settings(database=None, deadline=None, suppress_health_check=list(HealthCheck))
    @given(sub.strategy(tier))
    def test(case):
        try:
            out = sub.execute(case, env) or {}
        except Violation as v:
            if v.signature in known:
                return
            with open(os.path.join(work, 'violation.json'), 'w') as f:
                json.dump({'signature': v.signature, 'detail': v.detail[:4000], 'case': common.enc(getattr(v, 'min_case', None) or case)}, f)
            flush()
            env.close()
            os._exit(77)
        stats['executions'] += 1
        for c in out.get('classes', ()):
            stats['classes'][c] = stats['classes'].get(c, 0) + 1
        if out.get('nontrivial'):
            h = common.case_hash(case)
            if h not in seen and len(seen) < 20000:
                seen.add(h)
                stats['nontrivial'].append(h)
        if stats['executions'] % 500 == 0:
            flush()

    corpus_dir = os.path.join(work, 'corpus')
    os.makedirs(corpus_dir)
    if corpus == 'seeded':
        import hashlib

        blobs = [b'\x00' * 64, bytes(range(256)) * 2, b'\xff' * 512]
        for i in range(6):  # deterministic pseudo-random blobs long enough for the structured strategies
            blobs.append(b''.join(hashlib.sha256(b'%d:%d:%d' % (seed, i, j)).digest() for j in range(16 * (i + 1))))
        for i, blob in enumerate(blobs):
            with open(os.path.join(corpus_dir, 'seed%d' % i), 'wb') as f:
                f.write(blob)
    fuzz_one = test.hypothesis.fuzz_one_input

    def target(data):
        fuzz_one(data)

    argv = [sys.argv[0], '-runs=%d' % runs, '-seed=%d' % seed, '-max_len=4096', '-len_control=0', '-print_final_stats=0', '-verbosity=0', corpus_dir]
    atheris.Setup(argv, target)
    try:
        atheris.Fuzz()
    finally:
        flush()
        env.close()


if __name__ == '__main__':
    if len(sys.argv) >= 2 and sys.argv[1] == 'child':
        child(sys.argv[2], sys.argv[3], int(sys.argv[4]), int(sys.argv[5]), sys.argv[6], sys.argv[7], sys.argv[8])
