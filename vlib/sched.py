"""Cooperative scheduler: exactly one client thread runs between two yield points.

Yield points are the seam events (every SQL statement, file open/write/read/close, directory create/remove,
virtual sleep).  A schedule is a list of run-length segments [client, n_steps] followed by a round-robin
fair tail.  A client whose last step was a failed BEGIN IMMEDIATE or a virtual sleep is *waiting* and is
not chosen again until another client has made progress.
"""

import threading

from .common import HarnessError
from .seams import Controller, sql_label


class StepLimit(Exception):
    pass


class Stuck(Exception):
    """Clients could not finish even when left to run freely: livelock or deadlock in the code under test."""


class _Abort(BaseException):
    pass


class _Client:
    def __init__(self, idx):
        self.idx = idx
        self.go = threading.Semaphore(0)
        self.thread = None
        self.done = False
        self.waiting = False
        self.last_label = None
        self.error = None
        self.steps = 0
        self.ident = None


class Sched(Controller):
    def __init__(self, n, schedule, max_steps=5000, clock=None):
        self.clients = [_Client(i) for i in range(n)]
        self.schedule = [list(s) for s in schedule]
        self.max_steps = max_steps
        self.arrived = threading.Semaphore(0)
        self.by_ident = {}
        self.counter = 0  # global logical time: only the running thread touches it
        self.trace = []  # (counter, client, label)
        self.free_run = False
        self.abort = False
        self.switches = 0
        self.clock = clock
        self.limit_hit = False
        self.keep_trace = True
        self.on_step = None

    # -- called in client threads --------------------------------------------------------------
    def _me(self):
        return self.by_ident.get(threading.get_ident())

    def event(self, kind, label, con=None):
        me = self._me()
        if me is not None and self.abort:
            raise _Abort()
        if me is None or self.free_run:
            return
        if kind == 'sql-error':
            if label.lstrip().upper().startswith('BEGIN'):
                me.waiting = True
            return
        if kind == 'opened':
            return
        lab = sql_label(label) if kind == 'sql' else '%s:%s' % (kind, label)
        self._yield(me, lab)

    def sleep_event(self, d):
        me = self._me()
        if me is None or self.free_run:
            return
        me.waiting = True
        self._yield(me, 'sleep')

    def _yield(self, me, label):
        me.last_label = label
        self.arrived.release()
        me.go.acquire()
        # running again: about to execute `label`
        self.counter += 1
        if self.keep_trace:
            self.trace.append((self.counter, me.idx, label))

    def tick(self):
        self.counter += 1
        return self.counter

    # -- coordinator ---------------------------------------------------------------------------
    def run(self, bodies, join_timeout=6.0, prepare=None):
        """bodies[i](client_index) runs client i's whole program.  prepare[i](), if given, runs first in client i's thread,
        one client after the other and outside the schedule (no yield points): per-thread set-up such as opening the thread's
        SQLite connection, so that schedule segments address the statements of the judged calls."""
        clients = self.clients
        prepared = threading.Semaphore(0)

        def wrap(c, body):
            def target():
                c.ident = threading.get_ident()
                try:
                    try:
                        if prepare is not None:
                            prepare[c.idx]()
                    finally:
                        self.by_ident[c.ident] = c
                        prepared.release()
                    c.go.acquire()  # wait for first release
                    body(c.idx)
                except BaseException as exc:  # harness bug or unexpected escape
                    c.error = exc
                finally:
                    c.done = True
                    self.by_ident.pop(c.ident, None)
                    self.arrived.release()

            return target

        for c, body in zip(clients, bodies):
            c.thread = threading.Thread(target=wrap(c, body), daemon=True)
            c.thread.start()
            prepared.acquire()

        steps = 0
        seg = 0
        seg_left = self.schedule[0][1] if self.schedule else 0
        rr = 0
        last = None
        prev_progress_label = {}
        try:
            while True:
                alive = [c for c in clients if not c.done]
                if not alive:
                    break
                if steps >= self.max_steps:
                    self.limit_hit = True
                    raise StepLimit()
                ready = [c for c in alive if not c.waiting]
                if not ready:
                    for c in alive:
                        c.waiting = False
                    ready = alive
                pick = None
                while seg < len(self.schedule):
                    if seg_left <= 0:
                        seg += 1
                        if seg < len(self.schedule):
                            seg_left = self.schedule[seg][1]
                        continue
                    cand = clients[self.schedule[seg][0] % len(clients)]
                    if cand.done or cand.waiting:
                        seg_left = 0
                        continue
                    pick = cand
                    seg_left -= 1
                    break
                if pick is None:
                    # fair tail
                    order = sorted(ready, key=lambda c: (c.idx - rr) % len(clients))
                    pick = order[0]
                    rr = (pick.idx + 1) % len(clients)
                if last is not None and last is not pick:
                    self.switches += 1
                last = pick
                steps += 1
                pick.steps += 1
                executing = pick.last_label
                pick.go.release()
                self.arrived.acquire()
                # pick has executed `executing` and stopped at its next yield point (or finished)
                if pick.done or (executing in ('sql:COMMIT', 'sql:ROLLBACK')):
                    for c in clients:
                        if c is not pick:
                            c.waiting = False
                if self.on_step is not None:
                    self.on_step(pick.idx, executing)
        except StepLimit:
            pass
        finally:
            self.free_run = True
            for c in clients:
                if not c.done:
                    c.go.release()
            stuck = []
            for c in clients:
                c.thread.join(join_timeout)
                if c.thread.is_alive():
                    stuck.append(c.idx)
            if stuck:
                self.abort = True
                for c in clients:
                    c.thread.join(10.0)
                    if c.thread.is_alive():
                        raise HarnessError('client %d cannot be stopped' % c.idx)
                raise Stuck('clients %r did not finish within %.0f s of free running after %d scheduled steps; last steps: %r'
                            % (stuck, join_timeout, steps, self.trace[-12:]))
        for c in clients:
            if c.error is not None and not isinstance(c.error, _Abort):
                raise HarnessError('client %d body raised %r' % (c.idx, c.error))
        return steps

    def progress(self):
        """A client completed an operation: everybody may try again."""
        for c in self.clients:
            c.waiting = False


# ---------------------------------------------------------------------------------------------
# linearizability (Wing & Gong with memoisation)


class Call:
    __slots__ = ('cid', 'client', 'op', 'inv', 'res', 'result', 'interleaved')

    def __init__(self, cid, client, op, inv):
        self.cid = cid
        self.client = client
        self.op = op
        self.inv = inv
        self.res = None
        self.result = None
        self.interleaved = False

    def __repr__(self):
        return 'c%d[%d,%s] %r -> %r' % (self.client, self.inv, self.res, self.op, self.result)


def linearize(calls, init_state, apply, freeze, skippable=None, max_nodes=200000):
    """Search a linearization.  apply(state, call) -> (new_state, ok) where ok says whether call.result is
    what the model returns; freeze(state) -> hashable.  skippable(call) -> True if the call may be dropped
    (tolerated anomaly).  Returns the witness order (list of calls) or None."""
    n = len(calls)
    calls = sorted(calls, key=lambda c: c.inv)
    seen = set()
    nodes = [0]

    def minimal(done_mask):
        # calls not done whose invocation precedes every pending call's response
        pending = [c for i, c in enumerate(calls) if not done_mask >> i & 1]
        if not pending:
            return []
        first_res = min(c.res for c in pending)
        return [c for c in pending if c.inv < first_res]

    index = {c.cid: i for i, c in enumerate(calls)}
    order = []

    def dfs(done_mask, state):
        if done_mask == (1 << n) - 1:
            return True
        key = (done_mask, freeze(state))
        if key in seen:
            return False
        seen.add(key)
        nodes[0] += 1
        if nodes[0] > max_nodes:
            raise HarnessError('linearizability search exceeded %d nodes' % max_nodes)
        for c in minimal(done_mask):
            i = index[c.cid]
            new_state, ok = apply(state, c)
            if ok:
                order.append(c)
                if dfs(done_mask | (1 << i), new_state):
                    return True
                order.pop()
            if skippable is not None and skippable(c):
                order.append(c)
                if dfs(done_mask | (1 << i), state):
                    return True
                order.pop()
        return False

    if dfs(0, init_state):
        return list(order)
    return None


def overlaps(a, b):
    return a.inv < b.res and b.inv < a.res
