"""Seams: the harness owns time, SQL statements, file and directory operations.

diskcache.core reaches the outside world only through module-level names (time, sqlite3, open, os).
The repository's own tests patch the same names with mock, so they are established seams.  We replace
the *module attributes* with thin forwarding shims; no source hook is needed.
"""

import builtins
import os as _os
import sqlite3 as _sqlite3
import time as _time
import types

from .common import HarnessError

EPS = 2.0 ** -20
BASE = 1048576.0  # 2**20: base + k/8 + n*2**-20 is exact in a double


class VClock:
    """Virtual clock: time() = BASE + advanced + n_reads * 2**-20 (strictly increasing, exact)."""

    def __init__(self):
        self.adv = 0.0
        self.reads = 0
        self.sleeps = 0
        self.on_sleep = None
        self.frozen = False

    def time(self):
        if not self.frozen:
            self.reads += 1
        return BASE + self.adv + self.reads * EPS

    def peek(self):
        return BASE + self.adv + self.reads * EPS

    def sleep(self, d):
        self.sleeps += 1
        if d > 0:
            self.adv += d
        if self.on_sleep is not None:
            self.on_sleep(d)

    def advance(self, d):
        self.adv += d

    def monotonic(self):
        return self.time()

    def __getattr__(self, name):
        return getattr(_time, name)


class Controller:
    """Receives every seam event.  Subclasses override event(); default is a no-op."""

    def event(self, kind, label, con=None):
        pass


_NULL = Controller()


class Seams:
    """Installed shims for one process.  Use install()/uninstall() around a check."""

    def __init__(self):
        self.clock = None
        self.ctl = _NULL
        self.urandom_state = None
        self._saved = []
        self.installed = False

    # -- clock ---------------------------------------------------------------------------------
    def install_clock(self, modules):
        self.clock = VClock()
        for mod in modules:
            if not hasattr(mod, 'time'):
                raise HarnessError('seam lost: %s has no attribute time' % mod.__name__)
            self._saved.append((mod, 'time', mod.time))
            mod.time = self.clock
        return self.clock

    # -- io ------------------------------------------------------------------------------------
    def install_io(self, core):
        """Replace core.sqlite3 / core.open / core.os by event-emitting proxies."""
        seams = self
        for name in ('sqlite3', 'os'):
            if not hasattr(core, name):
                raise HarnessError('seam lost: diskcache.core has no attribute %s' % name)

        class HookConn(_sqlite3.Connection):
            def execute(self, sql, *args):
                seams.ctl.event('sql', sql, self)
                try:
                    result = _sqlite3.Connection.execute(self, sql, *args)
                except _sqlite3.OperationalError:
                    seams.ctl.event('sql-error', sql, self)
                    raise
                # a second yield point AFTER the statements that release the write lock: other clients may run between the end
                # of a transaction and the Python code that follows it (file clean-up, bookkeeping)
                head = sql.lstrip()[:8].upper()
                if head.startswith('COMMIT') or head.startswith('ROLLBACK'):
                    seams.ctl.event('sql-after', head.split()[0], self)
                return result

        def connect(*args, **kwargs):
            kwargs.setdefault('factory', HookConn)
            seams.ctl.event('connect', '')
            return _sqlite3.connect(*args, **kwargs)

        sql_proxy = types.SimpleNamespace()
        for name in dir(_sqlite3):
            if not name.startswith('__'):
                setattr(sql_proxy, name, getattr(_sqlite3, name))
        sql_proxy.connect = connect
        self._saved.append((core, 'sqlite3', core.sqlite3))
        core.sqlite3 = sql_proxy

        class HookFile:
            def __init__(self, f, mode):
                self._f = f
                self._mode = mode

            def write(self, data):
                seams.ctl.event('write', self._mode)
                return self._f.write(data)

            def read(self, *a):
                seams.ctl.event('read', self._mode)
                return self._f.read(*a)

            def close(self):
                seams.ctl.event('close', self._mode)
                return self._f.close()

            def __enter__(self):
                return self

            def __exit__(self, *exc):
                self.close()
                return False

            def __getattr__(self, name):
                return getattr(self._f, name)

            def __iter__(self):
                return iter(self._f)

        def hooked_open(path, mode='r', *args, **kwargs):
            seams.ctl.event('open', mode)
            f = builtins.open(path, mode, *args, **kwargs)
            seams.ctl.event('opened', mode)
            return HookFile(f, mode)

        self._saved.append((core, 'open', core.__dict__.get('open', None)))
        core.open = hooked_open

        class OsProxy:
            def __getattr__(self, name):
                return getattr(_os, name)

            def makedirs(self, *a, **k):
                seams.ctl.event('makedirs', '')
                return _os.makedirs(*a, **k)

            def remove(self, *a, **k):
                seams.ctl.event('remove', '')
                return _os.remove(*a, **k)

            def removedirs(self, *a, **k):
                seams.ctl.event('removedirs', '')
                return _os.removedirs(*a, **k)

            def rmdir(self, *a, **k):
                seams.ctl.event('rmdir', '')
                return _os.rmdir(*a, **k)

            def urandom(self, n):
                st = seams.urandom_state
                if st is None:
                    return _os.urandom(n)
                st[0] += 1
                import hashlib

                return hashlib.sha256(b'%d:%d' % (st[1], st[0])).digest()[:n]

        self._saved.append((core, 'os', core.os))
        core.os = OsProxy()

    def uninstall(self):
        for mod, name, old in reversed(self._saved):
            if old is None:
                try:
                    delattr(mod, name)
                except AttributeError:
                    pass
            else:
                setattr(mod, name, old)
        self._saved = []
        self.clock = None
        self.ctl = _NULL


def sql_label(sql):
    """First tokens of a statement: the label of a SQL yield point."""
    toks = sql.split()
    if not toks:
        return 'sql:'
    head = toks[0].upper()
    if head in ('BEGIN', 'COMMIT', 'ROLLBACK', 'VACUUM'):
        return 'sql:' + ' '.join(t.upper() for t in toks[:2])
    if head in ('SELECT', 'DELETE', 'INSERT'):
        up = sql.upper()
        tbl = 'Settings' if 'SETTINGS' in up and 'CACHE' not in up.replace('CACHE_', '') else 'Cache'
        return 'sql:%s %s' % (head, tbl)
    if head == 'UPDATE':
        return 'sql:UPDATE %s' % toks[1]
    if head == 'PRAGMA':
        return 'sql:PRAGMA %s' % toks[1]
    return 'sql:' + head
