"""Process-mode cooperative scheduling: every client is a forked OS process; the coordinator releases exactly one of them
to its next yield point by writing a byte to its pipe.  Same schedule semantics as vlib.sched.Sched."""

import os
import pickle
import select
import signal
import struct

from .common import HarnessError, Violation
from .conc import get_seams
from .sched import Call
from .seams import Controller, sql_label

TIMEOUT = 30.0
CURRENT = {'ctl': None}  # in a client process: its ChildCtl (for custom yield points and messages)


def _send(fd, obj):
    data = pickle.dumps(obj)
    os.write(fd, struct.pack('>I', len(data)) + data)


def _read_exact(fd, n, timeout):
    buf = b''
    while len(buf) < n:
        r, _, _ = select.select([fd], [], [], timeout)
        if not r:
            raise TimeoutError()
        chunk = os.read(fd, n - len(buf))
        if not chunk:
            raise EOFError()
        buf += chunk
    return buf


def _recv(fd, timeout=TIMEOUT):
    (n,) = struct.unpack('>I', _read_exact(fd, 4, timeout))
    return pickle.loads(_read_exact(fd, n, timeout))


class ChildCtl(Controller):
    def __init__(self, ev_fd, go_fd):
        self.ev_fd = ev_fd
        self.go_fd = go_fd
        self.free = False
        self.active = False

    def _yield(self, label):
        _send(self.ev_fd, ('Y', label))
        b = os.read(self.go_fd, 1)
        if b == b'F' or not b:
            self.free = True

    def event(self, kind, label, con=None):
        if not self.active or self.free:
            return
        if kind == 'sql-error':
            if label.lstrip().upper().startswith('BEGIN'):
                _send(self.ev_fd, ('W',))
            return
        if kind == 'opened':
            return
        self._yield(sql_label(label) if kind == 'sql' else '%s:%s' % (kind, label))

    def custom_yield(self, label):
        if self.active and not self.free:
            self._yield(label)

    def message(self, msg):
        _send(self.ev_fd, msg)

    def sleep_event(self, d):
        if not self.active or self.free:
            return
        _send(self.ev_fd, ('W',))
        self._yield('sleep')


class _P:
    def __init__(self, idx, pid, ev_fd, go_fd):
        self.idx, self.pid, self.ev_fd, self.go_fd = idx, pid, ev_fd, go_fd
        self.done = False
        self.waiting = False
        self.last_label = None
        self.open_call = None


class ProcRun:
    def __init__(self):
        self.trace = []
        self.switches = 0
        self.limit_hit = False
        self.counter = 0


def run_scheduled_procs(env, progs, schedule, setup, make_client, do_op, pid, max_steps=5000, final_ops=(), inspect=None, on_message=None):
    """setup(path) -> shared (built before the fork: inherited by every child); make_client(path, shared, i) runs in
    child i and returns its client object.  Returns (calls, ProcRun)."""
    seams = get_seams(env)
    path = env.scratch.fresh('proc')
    n = len(progs)
    shared = setup(path)
    procs = []
    run = ProcRun()
    calls = []
    cid = [0]
    try:
        for i in range(n):
            ev_r, ev_w = os.pipe()
            go_r, go_w = os.pipe()
            child = os.fork()
            if child == 0:
                try:
                    os.close(ev_r)
                    os.close(go_w)
                    for p in procs:
                        os.close(p.ev_fd)
                        os.close(p.go_fd)
                    ctl = ChildCtl(ev_w, go_r)
                    CURRENT['ctl'] = ctl
                    seams.ctl = ctl
                    seams.clock.on_sleep = ctl.sleep_event
                    client = make_client(path, shared, i)
                    _send(ev_w, ('READY',))
                    os.read(go_r, 1)  # first release
                    ctl.active = True
                    for j, op in enumerate(progs[i]):
                        _send(ev_w, ('I', j))
                        ctl.active = True
                        res = do_op(client, op)
                        _send(ev_w, ('R', j, res))
                    ctl.active = False
                    _send(ev_w, ('D',))
                except BaseException as exc:
                    try:
                        _send(ev_w, ('E', repr(exc)))
                    except Exception:
                        pass
                finally:
                    os._exit(0)
            os.close(ev_w)
            os.close(go_r)
            procs.append(_P(i, child, ev_r, go_w))
            # clients are prepared one at a time (connection set-up is not part of the judged calls)
            try:
                msg = _recv(ev_r)
            except (TimeoutError, EOFError):
                raise HarnessError('client process %d did not come up' % i)
            if msg[0] != 'READY':
                raise HarnessError('client process %d failed to start: %r' % (i, msg))

        def pump(p):
            """Read p's messages until it yields or finishes."""
            while True:
                try:
                    msg = _recv(p.ev_fd)
                except (TimeoutError, EOFError):
                    raise Violation('%s/no-progress' % pid, 'client process %d stopped responding (last label %r); trace tail %r' % (p.idx, p.last_label, run.trace[-10:]))
                kind = msg[0]
                if kind == 'Y':
                    p.last_label = msg[1]
                    return
                if kind == 'W':
                    p.waiting = True
                elif kind == 'I':
                    run.counter += 1
                    cid[0] += 1
                    p.open_call = Call(cid[0], p.idx, progs[p.idx][msg[1]], run.counter)
                elif kind == 'R':
                    run.counter += 1
                    c = p.open_call
                    c.res = run.counter
                    c.result = msg[2]
                    calls.append(c)
                    p.open_call = None
                    for q in procs:
                        q.waiting = False
                elif kind == 'D':
                    p.done = True
                    return
                elif kind == 'E':
                    raise HarnessError('client process %d raised %s' % (p.idx, msg[1]))
                elif on_message is not None:
                    on_message(p.idx, msg)

        steps = 0
        seg = 0
        seg_left = schedule[0][1] if schedule else 0
        rr = 0
        last = None
        started = set()
        while True:
            alive = [p for p in procs if not p.done]
            if not alive:
                break
            if steps >= max_steps:
                run.limit_hit = True
                break
            ready = [p for p in alive if not p.waiting]
            if not ready:
                for p in alive:
                    p.waiting = False
                ready = alive
            pick = None
            while seg < len(schedule):
                if seg_left <= 0:
                    seg += 1
                    if seg < len(schedule):
                        seg_left = schedule[seg][1]
                    continue
                cand = procs[schedule[seg][0] % n]
                if cand.done or cand.waiting:
                    seg_left = 0
                    continue
                pick = cand
                seg_left -= 1
                break
            if pick is None:
                order = sorted(ready, key=lambda p: (p.idx - rr) % n)
                pick = order[0]
                rr = (pick.idx + 1) % n
            if last is not None and last is not pick:
                run.switches += 1
            last = pick
            steps += 1
            executing = pick.last_label
            run.counter += 1
            run.trace.append((run.counter, pick.idx, executing))
            os.write(pick.go_fd, b'G')
            pump(pick)
            if pick.done or executing in ('sql:COMMIT', 'sql:ROLLBACK'):
                for q in procs:
                    if q is not pick:
                        q.waiting = False
        if run.limit_hit:
            for p in procs:
                if not p.done:
                    os.write(p.go_fd, b'F')
            for p in procs:
                while not p.done:
                    pump(p)
        # sequential read-back by the coordinator through its own handle
        if final_ops:
            client = make_client(path, shared, -1)
            for op in final_ops:
                run.counter += 1
                cid[0] += 1
                c = Call(cid[0], -1, op, run.counter)
                c.result = do_op(client, op)
                run.counter += 1
                c.res = run.counter
                calls.append(c)
            close = getattr(client, 'close', None)
            if close:
                close()
        if inspect is not None:
            inspect(path)
        return calls, run
    finally:
        for p in procs:
            try:
                os.kill(p.pid, signal.SIGKILL)
            except OSError:
                pass
            try:
                os.waitpid(p.pid, 0)
            except OSError:
                pass
            for fd in (p.ev_fd, p.go_fd):
                try:
                    os.close(fd)
                except OSError:
                    pass
        close = getattr(shared, 'close', None)
        if close:
            try:
                close()
            except Exception:
                pass
        env.scratch.drop(path)
