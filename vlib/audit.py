"""Independent audit of a cache directory: rows read through a raw sqlite3 connection, files through os.walk."""

import os
import sqlite3


class Snapshot:
    def __init__(self, directory):
        self.directory = directory
        db = os.path.join(directory, 'cache.db')
        con = sqlite3.connect(db, timeout=5)
        try:
            self.rows = con.execute(
                'SELECT rowid, key, raw, store_time, expire_time, access_time, access_count, tag, size, mode, filename, value'
                ' FROM Cache ORDER BY rowid'
            ).fetchall()
            self.settings = dict(con.execute('SELECT key, value FROM Settings').fetchall())
        finally:
            con.close()
        self.files = {}
        self.dirs = []
        for dirpath, dirs, files in os.walk(directory):
            rel = os.path.relpath(dirpath, directory)
            if rel != '.':
                self.dirs.append(rel)
            for f in files:
                p = os.path.join(dirpath, f)
                r = os.path.relpath(p, directory)
                if rel == '.' and f.startswith('cache.db'):
                    continue
                try:
                    self.files[r] = os.path.getsize(p)
                except OSError:
                    pass

    def key(self):
        """Comparable content (for 'nothing changed')."""
        rows = tuple(tuple(bytes(c) if isinstance(c, (bytes, memoryview)) else c for c in r) for r in self.rows)
        return (rows, self.settings.get('count'), self.settings.get('size'), tuple(sorted(self.files.items())))

    def data_key(self):
        """Like key() without access/statistics columns (for operations that may legitimately touch them)."""
        rows = tuple((r[0], bytes(r[1]) if isinstance(r[1], (bytes, memoryview)) else r[1], r[2], r[4], r[7], r[8], r[9], r[10],
                      bytes(r[11]) if isinstance(r[11], (bytes, memoryview)) else r[11]) for r in self.rows)
        return (rows, self.settings.get('count'), self.settings.get('size'), tuple(sorted(self.files.items())))

    def problems(self, allow_orphans=False):
        """Inconsistencies between counters, rows and files (C08's four clauses)."""
        out = []
        if self.settings.get('count') != len(self.rows):
            out.append(('count', 'Settings.count=%r but %d rows' % (self.settings.get('count'), len(self.rows))))
        total = sum(r[8] or 0 for r in self.rows)
        if self.settings.get('size') != total:
            out.append(('size', 'Settings.size=%r but sum(size)=%d' % (self.settings.get('size'), total)))
        referenced = set()
        for r in self.rows:
            fn = r[10]
            if fn is None:
                continue
            referenced.add(os.path.normpath(fn))
            if os.path.normpath(fn) not in self.files:
                out.append(('missing-file', 'row %r refers to missing file %s' % (r[0], fn)))
            elif self.files[os.path.normpath(fn)] != r[8]:
                out.append(('file-size', 'row %r records size %r, file %s has %d' % (r[0], r[8], fn, self.files[os.path.normpath(fn)])))
        if not allow_orphans:
            for f in sorted(self.files):
                if f not in referenced:
                    out.append(('orphan-file', 'file %s is referenced by no row' % f))
        return out

    def orphans(self):
        referenced = {os.path.normpath(r[10]) for r in self.rows if r[10] is not None}
        return sorted(f for f in self.files if f not in referenced)

    def empty_dirs(self):
        out = []
        for dirpath, dirs, files in os.walk(self.directory):
            if dirpath != self.directory and not dirs and not files:
                out.append(os.path.relpath(dirpath, self.directory))
        return sorted(out)
